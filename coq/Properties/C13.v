(* C13 - Reject files hold exactly the failed hunks of the failing patch.
   Proved: the body of a reject file - the failed hunks written one after the other - is read back by the
   parser as the same hunks, in order, with their line content and line numbers (C13_hunks_roundtrip,
   built on the hunk round trip of C12); rejects are rendered exactly for the file patches of the failing patch whose report has a failed hunk
   (C13_rejects_rendered, C13_only_failing_patch_and_failed_files, C13_every_failed_file), none when the
   push succeeds or is a dry run (C13_none_on_success), and written one create each, after the tree is saved; the hunks
   written are exactly the ones reported Failed (failed_hunks, by definition of write_rej).
   The whole reject of one file patch - header lines and failed hunks - is read back as ONE file patch with the same
   names, rename flag, modes and hashes and exactly the failed hunks (C13_reject_reads_back), for every file
   patch of every patch the parser accepts (C13_parsed_reject_reads_back).
   PARTIAL: several rejects merged into one file (several sections of a patch for one file) are compared by the runs. *)
From Coq Require Import List ZArith NArith Bool.
Import ListNotations.
From RQ Require Import Params Base Apply Parser Writer Quilt WriterProofs QuiltProofs FilenameProofs HeaderProofs ParsedProofs RejectProofs.

Theorem C13_hunks_roundtrip :
  forall hs, Forall wf_phunk hs -> forall out rest fuel acc,
  write_hunks hs = Ok out -> starts_ok rest -> is_nomatch (parse_hunk_header rest) = true ->
  (length hs < fuel)%nat ->
  exists hs', parse_hunks fuel (out ++ rest) acc = Ok (POk rest (acc ++ hs')) /\ Forall2 same_hunk hs hs'.
Proof. exact write_parse_hunks. Qed.
Print Assumptions C13_hunks_roundtrip.

(* header and failed hunks together: the reject parses as a patch for that file with exactly the failed hunks *)
Theorem C13_reject_reads_back :
  forall fp rep out,
    wf_fp0 fp -> r_failed rep = true -> failed_hunks (pf_hunks fp) (r_hunks rep) <> [] ->
    write_rej fp rep = Ok out ->
    exists fp', parse_filepatch out false = Ok (POk [] ([], fp')) /\
                pf_old fp' = pf_old fp /\ pf_new fp' = pf_new fp /\ pf_rename fp' = pf_rename fp /\
                pf_operm fp' = pf_operm fp /\ pf_nperm fp' = pf_nperm fp /\
                pf_ohash fp' = pf_ohash fp /\ pf_nhash fp' = pf_nhash fp /\
                Forall2 same_hunk (failed_hunks (pf_hunks fp) (r_hunks rep)) (pf_hunks fp').
Proof. exact rej_roundtrip. Qed.
Print Assumptions C13_reject_reads_back.

Theorem C13_parsed_reject_reads_back :
  forall input strip wh p fp rep out,
    parse_patch input strip wh = Ok (Parsed p) -> Forall is_byte input -> In fp (pp_fps p) ->
    r_failed rep = true -> failed_hunks (pf_hunks fp) (r_hunks rep) <> [] ->
    write_rej fp rep = Ok out ->
    exists fp', parse_filepatch out false = Ok (POk [] ([], fp')) /\
                pf_old fp' = pf_old fp /\ pf_new fp' = pf_new fp /\ pf_rename fp' = pf_rename fp /\
                pf_operm fp' = pf_operm fp /\ pf_nperm fp' = pf_nperm fp /\
                pf_ohash fp' = pf_ohash fp /\ pf_nhash fp' = pf_nhash fp /\
                Forall2 same_hunk (failed_hunks (pf_hunks fp) (r_hunks rep)) (pf_hunks fp').
Proof. exact parsed_rej_roundtrip. Qed.
Print Assumptions C13_parsed_reject_reads_back.

(* which rejects are rendered when patch [index] failed: one per file patch of that patch whose report
   has a failed hunk - named <target>.rej, content write_rej of that file patch and its report - and
   nothing else; the order is the order of the stack (last file patch first) *)
Theorem C13_rejects_rendered :
  forall fuel st index acc st' rejs,
  rollback_and_render_rej fuel st index acc = ROk (st', rejs) ->
  (length (a_applied st) < fuel)%nat ->
  exists l, rejs = fold_left (fun a r => add_rej (fst r) (snd r) a) l acc /\
            a_applied st' = below (a_applied st) index /\
            Forall2 (fun s r => fst r = rej_name (st_target s) /\ write_rej_bytes s = ROk (snd r))
                    (rejected (a_applied st) index) l.
Proof. exact render_spec. Qed.
Print Assumptions C13_rejects_rendered.

(* rejects of several file patches for one file share one reject file *)
Theorem C13_one_reject_file_per_name :
  forall l acc, NoDup (map fst acc) ->
  NoDup (map fst (fold_left (fun a r => add_rej (fst r) (snd r) a) l acc)).
Proof. exact rendered_names_distinct. Qed.
Print Assumptions C13_one_reject_file_per_name.

Theorem C13_only_failing_patch_and_failed_files :
  forall stack index s, In s (rejected stack index) ->
  In s stack /\ st_index s = index /\ r_failed (st_report s) = true.
Proof. exact rejected_only_failing. Qed.
Print Assumptions C13_only_failing_patch_and_failed_files.

Theorem C13_every_failed_file :
  forall stack index s,
  In s stack -> (forall t, In t stack -> st_index t = index) -> r_failed (st_report s) = true ->
  In s (rejected stack index).
Proof. exact rejected_complete. Qed.
Print Assumptions C13_every_failed_file.

(* a push that succeeds, and a dry run, render no rejects; rejects are written after the tree is saved *)
Theorem C13_none_on_success :
  forall cfg db series st idx fs fs' st' n rejs,
  apply_series cfg db st idx series fs = (fs', ROk (st', n, rejs)) ->
  fs' = fs /\
  exists pre rest st_mid,
    series = pre ++ rest /\ n = (idx + length pre)%nat /\ all_apply cfg db fs st idx pre st_mid /\
    match rest with
    | [] => st' = st_mid /\ rejs = []
    | sp :: _ =>
        exists st_f, patch_outcome cfg db fs st_mid n sp = Some (true, st_f) /\
          (if c_dry_run cfg then st' = st_f /\ rejs = []
           else rollback_and_render_rej (S (length (a_applied st_f))) st_f n [] = ROk (st', rejs))
    end.
Proof. exact apply_series_first_failure. Qed.
Print Assumptions C13_none_on_success.

Theorem C13_written_one_by_one :
  forall dm rn data rest, has_dotdot rn = false ->
  save_rej_files dm ((rn, data) :: rest) =
  (dom _ <- mop (fun fs => fs_create dm fs (normalize rn) None data)
                (fun e => match e with NotFound => ROk tt | FsOther => RErr ESave end);
   save_rej_files dm rest).
Proof. exact save_rej_files_step. Qed.
Print Assumptions C13_written_one_by_one.

(* the reject of a report without failure is empty; otherwise header + exactly the Failed hunks *)
Theorem C13_rej_content :
  forall fp rep, write_rej fp rep =
    if negb (r_failed rep) then Ok []
    else do h <- write_fp_header fp; do hs <- write_hunks (failed_hunks (pf_hunks fp) (r_hunks rep)); Ok (h ++ hs).
Proof. reflexivity. Qed.
Print Assumptions C13_rej_content.

(* read from the source on every run: both drivers write the rejects after the modified files are saved and the
   emptied directories removed (the order the model's apply_patches has) *)
Example C13_rejects_after_save_in_source : seq_order_ok = true /\ par_order_ok = true.
Proof. split; reflexivity. Qed.

(* several sections of the failing patch for one file: their rejects share one reject file, which reads back as that
   many file patches, in the order of the patch, each with exactly its failed hunks *)
Theorem C13_merged_reject_reads_back :
  forall (ss : list status) (l rejs : list rej_file) (n : bytes),
    rejs = fold_left (fun a r => add_rej (fst r) (snd r) a) l [] ->
    Forall2 (fun s r => fst r = rej_name (st_target s) /\ write_rej_bytes s = ROk (snd r)) ss l ->
    Forall (fun s => wf_fp0 (st_fp s) /\ r_failed (st_report s) = true /\
                     failed_hunks (pf_hunks (st_fp s)) (r_hunks (st_report s)) <> [] /\ fp_names_ok (st_fp s)) ss ->
    let mine := rev (filter (fun s => bytes_eqb (rej_name (st_target s)) n) ss) in
    exists fps', parse_patch (odef (rej_lookup n rejs)) 0 false = Ok (Parsed {| pp_header := []; pp_fps := fps' |}) /\
                 Forall2 same_fp0 (List.map (fun s => strip_fp 0 (rej_fp (st_fp s, st_report s))) mine) fps'.
Proof. exact rendered_rej_reads_back. Qed.
Print Assumptions C13_merged_reject_reads_back.
