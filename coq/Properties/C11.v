(* C11 - The patch parser is total: any bytes give a patch or an error, never a crash.
   The model (Parser.v) follows parser.rs loop by loop with explicit fuel (length of the input + 1)
   and has no panic outcome: after the fixes there is no unwrap/index/arithmetic left in the parser
   that can fail (line numbers above isize::MAX are rejected, reservations are capped by the input).
   What remains to prove - and is proved here for every byte string, strip level and header flag - is
   that the fuel never runs out, i.e. every loop iteration consumes at least one byte. *)
From Coq Require Import List ZArith NArith Bool String.
Import ListNotations.
From RQ Require Import Base Apply Parser ParserProofs.

Theorem C11_parser_total :
  forall (input : bytes) (strip : nat) (wants_header : bool),
    exists r, parse_patch input strip wants_header = Ok r.
Proof. exact parse_patch_total. Qed.
Print Assumptions C11_parser_total.

(* every successful parse of one file patch consumed at least one byte (so the outer loop ends) *)
Theorem C11_filepatch_progress :
  forall input wh, ok_plt (parse_filepatch input wh) (List.length input).
Proof. exact parse_filepatch_total. Qed.
Print Assumptions C11_filepatch_progress.

(* the hunk body loop ends whatever the counts in the header say (up to 2^64-1) *)
Theorem C11_hunk_body_total :
  forall fuel input ac rc rem add pre suf seen,
    (List.length input < fuel)%nat -> ok_ple (hunk_body fuel input ac rc rem add pre suf seen) (List.length input).
Proof. exact hunk_body_total. Qed.
Print Assumptions C11_hunk_body_total.

(* Non-vacuity: the three crash witnesses of the pinned tree are now plain errors or patches. *)
Example C11_witness :
  parse_patch (b "--- a/f
+++ b/f
@@ -1,18446744073709551615 +1 @@
-b
+c
") 1 false = Ok (ParseErr UnexpectedEndOfFile) /\
  parse_patch (b "--- a/f
+++ b/f
@@ -9223372036854775808,1 +1 @@
-b
+c
") 1 false = Ok (ParseErr BadHunkHeader) /\
  (exists p, parse_patch (b "--- a/f
+++ b/f
@@ -9223372036854775807,1 +1 @@
-b
+c
") 1 false = Ok (Parsed p)).
Proof. split; [vm_compute; reflexivity|]. split; [vm_compute; reflexivity|]. eexists. vm_compute. reflexivity. Qed.
