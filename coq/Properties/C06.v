(* C06 - Parallel push equals single-threaded push under every thread schedule.
   Proved (Parallel.v), for every number of workers, every list of file patches per worker (in series
   order), every deterministic apply/undo pair with undo (apply s t) = s, and EVERY schedule - any
   sequence of worker ids deciding whose next atomic action (read of the shared index / apply + fetch_min)
   happens - that brings all workers to a stop:
     * the shared `earliest_broken_patch_index` ends at F, the index of the first patch any of whose file
       patches fails in its worker's own in-order run - the patch the sequential driver stops at;
     * every worker has applied all its file patches of patches <= F (the failing patch completely, so
       the rejects are complete), possibly more (run-ahead);
     * undoing what it applied beyond F leaves exactly the state after its file patches of patches <= F;
     * the sequential driver on the same file patches stops at the same F with the same per-worker states
       (C06_sequential_is_the_same), so both drivers hand the same states to the common tail
       (roll back patch F with rejects, save, backups).
   The two comparison operators (`index > earliest` to stop, `index <= final_patch` to end the undoing)
   and the way a failing index is published (fetch_min) are read from parallel.rs into Params.v; the
   instantiation below only type-checks while they are >, <= and an atomic minimum.
   PARTIAL: that workers own disjoint files is C07 (proved); that apply/undo on a worker's files are
   ModifiedFiles-level inverses is C04 (C04_tree_plain / C04_tree_rename, proved); the composition of these
   with the L3 push (save phase, rejects, backups per worker) into 'tree equal to the sequential tree' is not
   one theorem - it is decided by the runs: --threads 1 (= L3 model) vs 2..16 under OS schedules and under
   schedules forced through the cfg-guarded hook. *)
From Coq Require Import List Arith Bool.
Import ListNotations.
From RQ Require Import Params Base Parallel ParallelSeq.

Theorem C06_every_schedule :
  forall (St T : Type) (run : St -> T -> St * bool) (undo : St -> T -> St) (idx : T -> nat),
  (forall s t, undo (fst (run s t)) t = s) ->
  forall (n : nat) (specs : list (wspec St T)) (sched : list nat),
  Forall (fun sp => sorted T idx (ws_tasks St T sp)) specs ->
  let c := exec St T run idx n sched (init St T n specs) in
  finished St T c ->
  earliest St T c = F_of St T run idx n specs /\
  Forall2 (fun sp w =>
             (forall t, In t (ws_tasks St T sp) -> idx t <= F_of St T run idx n specs -> In t (w_done St T w)) /\
             roll_back St T undo idx (w_state St T w) (w_done St T w) (F_of St T run idx n specs) =
               fold_run St T run (ws_init St T sp) (upto_patch T idx (F_of St T run idx n specs) (ws_tasks St T sp)))
          specs (workers St T c).
Proof.
  intros St T run undo idx Hundo n specs sched.
  exact (parallel_final St T run undo idx Hundo n eq_refl eq_refl eq_refl specs sched).
Qed.
Print Assumptions C06_every_schedule.

(* the sequential driver on the same file patches (all in series order, each on the state of the worker that
   owns its files, stopping after the first patch with a failure) ends at the same F and leaves every worker's
   files in the very state the parallel workers reach after undoing their run-ahead *)
Theorem C06_sequential_is_the_same :
  forall (St T : Type) (run : St -> T -> St * bool) (idx : T -> nat) (n W : nat)
         (all : list (nat * T)) (st : nat -> St),
  gsorted T idx all -> (forall g, In g all -> idx (snd g) < n) -> (forall g, In g all -> fst g < W) ->
  let '(st', F) := seq_run St T run idx n st None all in
  F = F_of St T run idx n (specs_of St T W st all) /\
  forall x, st' x = fold_run St T run (st x) (upto_patch T idx (F_of St T run idx n (specs_of St T W st all)) (tasks_of T x all)).
Proof. exact sequential_matches_parallel. Qed.
Print Assumptions C06_sequential_is_the_same.

(* non-vacuity: two workers, the second runs three patches ahead before the first one fails at patch 1 *)
Definition ex_run (s : list nat) (t : nat * bool) : list nat * bool := (fst t :: s, snd t).
Definition ex_undo (s : list nat) (t : nat * bool) : list nat := tl s.
Definition ex_specs : list (wspec (list nat) (nat * bool)) :=
  [ {| ws_init := []; ws_tasks := [(0, false); (1, true); (4, false)] |};
    {| ws_init := []; ws_tasks := [(0, false); (2, false); (3, false); (5, false)] |} ].
Definition ex_sched : list nat := [1;1;1;1;1;1; 0;0;0;0; 1;1;1; 0;0; 1;1].
Definition ex_final := exec (list nat) (nat * bool) ex_run fst 6 ex_sched (init (list nat) (nat * bool) 6 ex_specs).

Example C06_run_ahead_schedule_finishes :
  forallb (fun w => match w_pc _ _ w with PStop => true | _ => false end) (workers _ _ ex_final) = true /\
  earliest _ _ ex_final = 1 /\
  map (fun w => length (w_done _ _ w)) (workers _ _ ex_final) = [2; 3].
Proof. vm_compute. auto. Qed.

(* ---------- why the work can be split by classes of names ---------- *)
From RQ Require Import Apply Parser Quilt ViewSim Independence.

(* For a class of names closed under "related through a file patch" (every file patch lies inside or outside it, which
   is what C07 gives for the names handed to one worker): applying all file patches of a patch, or only those of the
   class, leaves every name of the class the same - lines, existence, effective mode.  A worker that applies only
   its own file patches to its own overlay computes what the sequential driver computes for those names. *)
Theorem C06_class_is_independent :
  forall inK dm fs cls index sp fuzz fps st stK af afK af' st',
    Forall (classified inK cls) fps ->
    wsim (K inK) dm fs (a_files st) fs (a_files stK) ->
    apply_file_patches fs st index sp fuzz fps af = ROk (af', st') ->
    exists afK' stK', apply_file_patches fs stK index sp fuzz (filter cls fps) afK = ROk (afK', stK') /\
                      wsim (K inK) dm fs (a_files st') fs (a_files stK').
Proof. exact class_is_independent. Qed.
Print Assumptions C06_class_is_independent.

(* a file patch outside the class does not touch the overlay entries of the class *)
Theorem C06_outside_is_a_frame :
  forall inK fs st idx pn rev F fp ok st1,
    fp_out inK fp -> apply_one_file_patch fs st idx pn rev F fp = ROk (ok, st1) -> veqK inK (a_files st1) (a_files st).
Proof. exact apply_one_outside. Qed.
Print Assumptions C06_outside_is_a_frame.

(* with C07: W assigns a worker to every name and gives both names of every file patch the same worker; then each
   worker's names are such a class, and its file patches are the ones whose (old, else new) name it owns *)
Theorem C06_worker_is_independent :
  forall W dm fs w index sp fuzz fps st stK af afK af' st',
    Forall (same_worker W) fps ->
    wsim (K (fun k => Nat.eqb (W k) w)) dm fs (a_files st) fs (a_files stK) ->
    apply_file_patches fs st index sp fuzz fps af = ROk (af', st') ->
    exists afK' stK', apply_file_patches fs stK index sp fuzz (filter (fun fp => Nat.eqb (owner W fp) w) fps) afK = ROk (afK', stK') /\
                      wsim (K (fun k => Nat.eqb (W k) w)) dm fs (a_files st') fs (a_files stK').
Proof. exact worker_is_independent. Qed.
Print Assumptions C06_worker_is_independent.
