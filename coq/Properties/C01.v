(* C01 - A unified diff from A to B, pushed onto A, yields exactly B (and -R yields A).
   Proved (unbounded, any line type): a list of well-formed hunks each of which sits exactly at its
   stated line of the file - the C02 oracle level_ok at that line, offset 0, behind the previous hunk -
   is applied by FilePatch::apply with every hunk reported Applied at that line, offset 0, fuzz 0
   (whatever fuzz is allowed), and the new content is the old one with each hunk's changed region
   replaced (C01_exact_diff_applies; direction Fwd or Rev alike).  Whole-file creation gives the hunk's
   new side, deletion of a file equal to the old side gives the empty, absent file (C01_create,
   C01_delete).  Splitting a file into lines and writing it back is the identity on arbitrary bytes
   (C01_split_concat).
   A specification-level generator of unified diffs (DiffGen.hunks_of: edit script + context width -> hunks) is
   proved to produce such hunks for EVERY script and EVERY context width, in both directions
   (C01_every_script, C01_every_script_reverse).
   PARTIAL: that what GNU diff / git diff print for (A, B) - in each header dialect - is what the generator
   produces for some script, and parses back to it, is not proved (no model of the tools' alignment search
   nor of their printers): the generator is compared with `diff -U c` on scripts with pairwise different lines
   (unique alignment), the extracted checker c01_check evaluates the theorem's hypotheses on the tools' output
   for arbitrary generated pairs, and the push of the real binary (and of the L3 model) on a tree holding A
   must leave B, with -R back to A.
   REFUTED for context width 0 at the top of a file (known finding ctxfree-top, witnesses below). *)
From Coq Require Import List ZArith NArith Bool String.
Import ListNotations.
From RQ Require Import Base Apply ApplySpec Parser Quilt PlaceProofs DiffSpec DiffCheck DiffGen.

Theorem C01_exact_diff_applies :
  forall (line : Type) (line_eqb : line -> line -> bool),
  (forall a b, line_eqb a b = true <-> a = b) ->
  forall (fp : Apply.fpatch line) (mf : Apply.mfile line) d F,
  Forall (wf_hunk line) (fp_hunks fp) -> deleted mf = false -> (zlen (content mf) < isize_max)%Z ->
  exact_diff line line_eqb (fp_hunks fp) d (content mf) (-1) = true ->
  exists rs,
    apply_modify line line_eqb fp mf d F Normal =
      Ok (set_content line mf (rewrite line (content mf) 0 (map (diff_core line d) (fp_hunks fp))), mk_report d F rs) /\
    Forall2 (exact_report line d) (fp_hunks fp) rs /\ r_failed (mk_report d F rs) = false.
Proof. exact exact_diff_applies. Qed.
Print Assumptions C01_exact_diff_applies.

(* for EVERY edit script in normal form and EVERY context width: the hunks a unified diff has for it (context of
   up to c lines, clipped at the ends of the file, changes closer than 2c+1 kept lines being one hunk) applied to
   the source give the destination, each hunk at offset 0 with fuzz 0, whatever fuzz limit is allowed; and the same
   hunks applied in reverse take the destination back to the source *)
Theorem C01_every_script :
  forall (line : Type) (line_eqb : line -> line -> bool),
  (forall a b, line_eqb a b = true <-> a = b) ->
  forall c k0 cs (fp : Apply.fpatch line) (mf : Apply.mfile line) F,
  inner_long line c cs -> fp_hunks fp = hunks_of line c k0 cs -> content mf = src line k0 cs -> deleted mf = false ->
  (zlen (src line k0 cs) < isize_max)%Z ->
  exists rs,
    apply_modify line line_eqb fp mf Fwd F Normal = Ok (set_content line mf (dst line k0 cs), mk_report Fwd F rs) /\
    Forall2 (exact_report line Fwd) (fp_hunks fp) rs /\ r_failed (mk_report Fwd F rs) = false.
Proof. exact diff_applies. Qed.
Print Assumptions C01_every_script.

Theorem C01_every_script_reverse :
  forall (line : Type) (line_eqb : line -> line -> bool),
  (forall a b, line_eqb a b = true <-> a = b) ->
  forall c k0 cs (fp : Apply.fpatch line) (mf : Apply.mfile line) F,
  inner_long line c cs -> fp_hunks fp = hunks_of line c k0 cs -> content mf = dst line k0 cs -> deleted mf = false ->
  (zlen (dst line k0 cs) < isize_max)%Z ->
  exists rs,
    apply_modify line line_eqb fp mf Rev F Normal = Ok (set_content line mf (src line k0 cs), mk_report Rev F rs) /\
    Forall2 (exact_report line Rev) (fp_hunks fp) rs /\ r_failed (mk_report Rev F rs) = false.
Proof. exact diff_applies_rev. Qed.
Print Assumptions C01_every_script_reverse.

(* non-vacuity: a script with two changes far enough apart for context 1 gives two hunks *)
Example C01_generator_example :
  hunks_of N 1 [1; 2]%N [({| c_rem := [3]%N; c_add := [30; 31]%N |}, [4; 5; 6]%N); ({| c_rem := [7]%N; c_add := [] |}, [8]%N)] =
  [ {| h_rem := [2; 3; 4]%N; h_rline := 1; h_add := [2; 30; 31; 4]%N; h_aline := 1; h_pre := 1; h_suf := 1 |};
    {| h_rem := [6; 7; 8]%N; h_rline := 5; h_add := [6; 8]%N; h_aline := 6; h_pre := 1; h_suf := 1 |} ].
Proof. vm_compute. reflexivity. Qed.

Theorem C01_split_concat : forall bs, concat_lines (split_lines bs) = bs.
Proof. exact split_concat. Qed.
Print Assumptions C01_split_concat.

Theorem C01_create :
  forall (fp : Apply.fpatch bytes) (mf : Apply.mfile bytes) h F,
  fp_hunks fp = [h] -> content mf = [] ->
  Apply.apply_create bytes fp mf Fwd F Normal =
    Ok ({| content := h_add h; existed := existed mf; deleted := false; perm := perm mf |},
        Apply.single Fwd F (Applied 0 0 0 (zlen (h_add h)) F)).
Proof. exact create_gives_new. Qed.
Print Assumptions C01_create.

Theorem C01_delete :
  forall (fp : Apply.fpatch bytes) (mf : Apply.mfile bytes) h F,
  fp_hunks fp = [h] -> content mf = h_rem h -> fp_has_new fp = false ->
  Apply.apply_delete bytes bytes_eqb fp mf Fwd F Normal =
    Ok ({| content := []; existed := existed mf; deleted := true; perm := perm mf |},
        Apply.single Fwd F (Applied 0 0 0 (- zlen (h_rem h)) F)).
Proof. exact delete_gives_empty. Qed.
Print Assumptions C01_delete.

(* a diff that exact_diff accepts, and what the theorem then says (non-vacuity) *)
Definition nl := String (Ascii.ascii_of_nat 10) EmptyString.
Definition a_file := b ("a" ++ nl ++ "b" ++ nl ++ "c" ++ nl ++ "d" ++ nl)%string.
Definition b_file := b ("a" ++ nl ++ "B" ++ nl ++ "c" ++ nl ++ "d" ++ nl)%string.
Definition u1 := b ("--- a/f" ++ nl ++ "+++ b/f" ++ nl ++ "@@ -1,3 +1,3 @@" ++ nl ++ " a" ++ nl ++ "-b" ++ nl ++ "+B" ++ nl ++ " c" ++ nl)%string.
Example C01_checker_accepts : c01_check u1 1 Fwd (Some a_file) (Some b_file) = C01_Result Modify true true.
Proof. vm_compute. reflexivity. Qed.
Example C01_checker_accepts_reverse : c01_check u1 1 Rev (Some b_file) (Some a_file) = C01_Result Modify true true.
Proof. vm_compute. reflexivity. Qed.

(* known finding ctxfree-top: a zero-context insertion at the top of a non-empty file is what the parser
   takes for the creation of a file, and creation over a file with content is refused *)
Definition top_insert := b ("--- a/f" ++ nl ++ "+++ b/f" ++ nl ++ "@@ -0,0 +1 @@" ++ nl ++ "+x" ++ nl)%string.
Example C01_refuted_ctxfree_top_insert :
  match c01_check top_insert 1 Fwd (Some a_file) (Some (b ("x" ++ nl) ++ a_file)) with
  | C01_Result Create false _ => True | _ => False end.
Proof. vm_compute. exact I. Qed.
Definition top_delete := b ("--- a/f" ++ nl ++ "+++ b/f" ++ nl ++ "@@ -1 +0,0 @@" ++ nl ++ "-a" ++ nl)%string.
Example C01_refuted_ctxfree_top_delete :
  match c01_check top_delete 1 Fwd (Some a_file) (Some (b ("b" ++ nl ++ "c" ++ nl ++ "d" ++ nl)%string)) with
  | C01_Result Delete false _ => True | _ => False end.
Proof. vm_compute. exact I. Qed.
