(* C19 - Patch file names can never make a push touch files outside the working tree.
   Proved: (1) every file patch of a patch the parser accepts has names that are not unsafe in the
   parser's sense (no root, no ".." component of std::path::Components) and not empty
   (C19_accepted_names); (2) such a name, seen the way the file system sees it - split at '/', empty and
   "." pieces ignored - has no ".." piece and is not absolute (C19_safe_name_stays_inside: the parser's
   iterator model and the file system's view agree); the overlay is keyed by the canonical spelling of
   a name (Path equality of the HashMap), which denotes the same path and never starts with '/'; (3) on the L3
   model every name that reaches the
   overlay of files to save, the stack of applied file patches (backups) or a reject file comes from an
   accepted patch (C19_names_everywhere), so saving them never meets a name leaving the tree
   (C19_save_stays_inside, C19_rejects_stay_inside); (4) a patch with an unsafe name is a load error, an
   early error, and those leave the file system untouched (C19_refusal_is_clean = C17).
   Witnesses for the spellings of the property text are evaluated below.  PARTIAL: symbolic links inside
   the tree are outside the file-system model; patch FILE names in the series file (not names carried
   by a patch) are outside this property. *)
From Coq Require Import List ZArith NArith Bool String.
Import ListNotations.
From RQ Require Import Base Apply Parser Quilt QuiltProofs ParserWf PathProofs NameSafety.
Local Open Scope N_scope.

Theorem C19_accepted_names :
  forall input strip wh p, parse_patch input strip wh = Ok (Parsed p) ->
  Forall (fun fp => good_fp fp /\ unsafe_fp fp = false /\ empty_name_fp fp = false) (pp_fps p).
Proof. exact parse_patch_good. Qed.
Print Assumptions C19_accepted_names.

Theorem C19_safe_name_stays_inside :
  forall p, is_unsafe p = false -> has_dotdot p = false /\ (forall r, p <> 47 :: r).
Proof. exact safe_name_stays_inside. Qed.
Print Assumptions C19_safe_name_stays_inside.

Theorem C19_names_everywhere :
  forall cfg db series st idx fs fs' st' n rejs,
  apply_series cfg db st idx series fs = (fs', ROk (st', n, rejs)) ->
  st_ok st -> st_ok st' /\ Forall (fun r => inside (fst r)) rejs.
Proof. exact apply_series_names. Qed.
Print Assumptions C19_names_everywhere.

Theorem C19_save_stays_inside :
  forall dm ov cl fs fs' e, ov_ok ov -> save_all dm ov cl fs = (fs', RErr e) -> e = ESave.
Proof. exact save_all_err. Qed.
Print Assumptions C19_save_stays_inside.

Theorem C19_rejects_stay_inside :
  forall dm rejs fs fs' e, Forall (fun r => inside (fst r)) rejs ->
  save_rej_files dm rejs fs = (fs', RErr e) -> e = ESave.
Proof. exact save_rej_files_err. Qed.
Print Assumptions C19_rejects_stay_inside.

Theorem C19_refusal_is_clean : forall cfg db g, early_clean (cmd_push cfg db g).
Proof. exact push_early_error_writes_nothing. Qed.
Print Assumptions C19_refusal_is_clean.

(* the empty state, from which every push starts, satisfies the invariant *)
Example C19_initial_state_ok : st_ok {| a_applied := []; a_files := [] |}.
Proof. split; [split; [intros k m []|constructor]|constructor]. Qed.

(* the spellings named in the property text are refused *)
Definition refused (patch : string) (strip : nat) : bool :=
  match parse_patch (b patch) strip false with Ok (ParseErr UnsafeFilename) => true | _ => false end.

Definition nl := String (Ascii.ascii_of_nat 10) EmptyString.
Definition hunk := ("@@ -0,0 +1 @@" ++ nl ++ "+x" ++ nl)%string.

Example C19_dotdot_after_strip : refused ("--- /dev/null" ++ nl ++ "+++ b/../../x" ++ nl ++ hunk) 1 = true.
Proof. vm_compute. reflexivity. Qed.
Example C19_absolute : refused ("--- /dev/null" ++ nl ++ "+++ /etc/x" ++ nl ++ hunk) 0 = true.
Proof. vm_compute. reflexivity. Qed.
Example C19_absolute_after_strip_of_nothing : refused ("--- a/x" ++ nl ++ "+++ //x" ++ nl ++ hunk) 0 = true.
Proof. vm_compute. reflexivity. Qed.
Example C19_quoted_escape :
  refused ("--- /dev/null" ++ nl ++ "+++ ""b/\056\056/x""" ++ nl ++ hunk) 1 = true.
Proof. vm_compute. reflexivity. Qed.
Example C19_git_line : refused ("diff --git a/../x b/../x" ++ nl ++ "old mode 100644" ++ nl ++ "new mode 100755" ++ nl) 1 = true.
Proof. vm_compute. reflexivity. Qed.
Example C19_inner_dotdot : refused ("--- a/d/../../x" ++ nl ++ "+++ b/d/../../x" ++ nl ++ hunk) 1 = true.
Proof. vm_compute. reflexivity. Qed.
(* and names that merely look odd are not *)
Example C19_dots_ok : refused ("--- a/..." ++ nl ++ "+++ b/..x" ++ nl ++ hunk) 1 = false.
Proof. vm_compute. reflexivity. Qed.
