(* C18 - An output failure is never reported as success nor recorded as applied.
   The file-system model carries a fault oracle: fs_fault = Some k makes the k-th output operation
   (unlink, create_dir_all, create+write of a tree file, reject, backup, applied-patches) fail with an
   I/O error without effect; fs_fired records that it happened.  Proved for every configuration, patch
   database, goal, initial tree and every k: if the fault fires during the push, the push ends with the
   output error ESave - not with success, not with a crash (C18_fault_is_reported); when a push ends
   with an error, either applied-patches was not touched at all (the error came before save_applied
   ran) or writing applied-patches itself failed (C18_error_not_recorded); and a tree file whose save
   step succeeded is on disk with its content (C18_saved_means_written).
   PARTIAL: the model's output operations are atomic (the binary's create = open + write + chmod; a
   failing write leaves an empty or short file) and removing emptied directories cannot fail in the
   model; 'a message naming the file' and the propagation of errors out of worker threads are decided
   by the runs: every output system call of a traced run is made to fail in turn (strace fault
   injection) in the sequential and the parallel driver. *)
From Coq Require Import List ZArith NArith Bool String.
Import ListNotations.
From RQ Require Import Params Base Apply Parser Quilt QuiltProofs FreshInode FaultProofs.

Theorem C18_fault_is_reported :
  forall cfg db g fs fs' r,
  cmd_push cfg db g fs = (fs', r) -> fs_fired fs = false -> fs_fired fs' = true -> r = RErr ESave.
Proof. exact fault_is_reported. Qed.
Print Assumptions C18_fault_is_reported.

Theorem C18_error_not_recorded :
  forall cfg db g fs fs' e,
  cmd_push cfg db g fs = (fs', RErr e) ->
  (exists e0, resolve_range fs g = RErr e0 /\ fs' = fs) \/
  exists series first last,
    resolve_range fs g = ROk (series, first, last) /\ first <> last /\
    let range := firstn (last - first) (skipn first series) in
    (fs' = fs /\ (if c_preload cfg then preload db range else ROk tt) = RErr e) \/
    apply_patches cfg db range fs = (fs', RErr e) \/
    (exists n fs1, apply_patches cfg db range fs = (fs1, ROk n) /\ c_dry_run cfg = false /\
                   save_applied (c_default_mode cfg) (firstn n range) fs1 = (fs', RErr e)).
Proof. exact error_not_recorded. Qed.
Print Assumptions C18_error_not_recorded.

Theorem C18_saved_means_written :
  forall dm k m cl fs fs' cl',
  save_modified_file dm k m cl fs = (fs', ROk cl') -> deleted m = false ->
  exists md, lookup_file (normalize k) (fs_files fs') = Some {| f_data := concat_lines (content m); f_mode := md |}.
Proof. exact saved_means_written. Qed.
Print Assumptions C18_saved_means_written.

(* the oracle does fire: a one-patch push whose first output operation fails *)
Definition c18_fs (k : option nat) : fsys :=
  {| fs_files := [([b "series"], {| f_data := b "p" ++ [10%N]; f_mode := 420 |});
                  ([b "f"], {| f_data := b "a" ++ [10%N]; f_mode := 420 |})];
     fs_dirs := []; fs_log := []; fs_fault := k; fs_fired := false |}.
Definition c18_db : patches_db :=
  [(b "p", b "--- a/f" ++ [10%N] ++ b "+++ b/f" ++ [10%N] ++ b "@@ -1 +1 @@" ++ [10%N] ++ b "-a" ++ [10%N] ++ b "+b" ++ [10%N])].
Definition c18_cfg : config :=
  {| c_fuzz := 0; c_backup := Never; c_backup_count := BAll; c_dry_run := false; c_default_mode := 420; c_preload := false |}.
Definition c18_run (k : option nat) := cmd_push c18_cfg c18_db GAll (c18_fs k).

Example C18_no_fault_succeeds : snd (c18_run None) = ROk true /\ fs_fired (fst (c18_run None)) = false.
Proof. vm_compute. auto. Qed.
Example C18_each_fault_fires_and_is_reported :
  forallb (fun k => fs_fired (fst (c18_run (Some k))) &&
                    match snd (c18_run (Some k)) with RErr ESave => true | _ => false end) [0; 1; 2; 3]%nat = true.
Proof. vm_compute. reflexivity. Qed.
Example C18_after_the_last_operation_nothing_fires : fs_fired (fst (c18_run (Some 4%nat))) = false.
Proof. vm_compute. reflexivity. Qed.

(* read from the source on every run: cmd.rs records applied-patches after the driver returned, and only then *)
Example C18_record_last_in_source : record_last_ok = true.
Proof. reflexivity. Qed.
