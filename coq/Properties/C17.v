(* C17 - Inconsistent quilt state or arguments are refused cleanly, nothing is touched.
   early_error = unreadable series, applied-patches that is not a prefix of series, unknown or already
   applied goal, missing or unparseable patch file, unreadable file to patch.
   early_clean x := whenever x ends in an early error the file system (files, modes, directories,
   operation log) is exactly what it was before.  A crash is the distinct outcome RPanic: an RErr
   result is a clean exit with status 1. *)
From Coq Require Import List ZArith NArith Bool String.
Import ListNotations.
From RQ Require Import Base Apply Parser Quilt QuiltProofs.

Theorem C17_refusal_touches_nothing :
  forall cfg db g, early_clean (cmd_push cfg db g).
Proof. exact push_early_error_writes_nothing. Qed.
Print Assumptions C17_refusal_touches_nothing.

(* a missing or unparseable patch is only ever met before any patch failed to apply: the apply loop
   stops at the first failing patch, so a load error means no reject was written either *)
Theorem C17_patch_load_error_before_any_write :
  forall cfg db series st index, early_clean (apply_series cfg db st index series).
Proof. exact early_clean_apply_series. Qed.
Print Assumptions C17_patch_load_error_before_any_write.

(* applied-patches differs from, or is longer than, series: refused *)
Theorem C17_mismatch_refused :
  forall fs g series applied sf af,
  fs_read fs [b "series"] = inl sf -> read_series (f_data sf) = ROk series ->
  fs_read fs [b ".pc"; b "applied-patches"] = inl af -> read_series (f_data af) = ROk applied ->
  (prefix_mismatch series applied = true \/ (List.length series < List.length applied)%nat) ->
  resolve_range fs g = RErr EMismatch.
Proof. exact refuse_mismatch. Qed.
Print Assumptions C17_mismatch_refused.

(* Non-vacuity: applied-patches longer than series (P5) is refused without touching anything. *)
Example C17_witness :
  let fs := {| fs_files := [([b "series"], {| f_data := b "p.patch
"; f_mode := 420 |});
                            ([b ".pc"; b "applied-patches"], {| f_data := b "p.patch
q.patch
"; f_mode := 420 |});
                            ([b "f"], {| f_data := b "a
"; f_mode := 420 |})];
               fs_dirs := [[b ".pc"]]; fs_log := []; fs_fault := None; fs_fired := false |} in
  let cfg := {| c_fuzz := 0; c_backup := OnFail; c_backup_count := BLast 100; c_dry_run := false; c_default_mode := 420; c_preload := false |} in
  cmd_push cfg [] GAll fs = (fs, RErr EMismatch).
Proof. vm_compute. reflexivity. Qed.

(* applied-patches that is there but cannot be read as a list of patches (a directory in its place, an option the
   series syntax does not know, ...): refused as well, never taken for "nothing applied" *)
Theorem C17_unreadable_applied_refused :
  forall fs g,
  match fs_read fs [b ".pc"; b "applied-patches"] with
  | inl af => (forall applied, read_series (f_data af) <> ROk applied) /\ read_series (f_data af) <> RErr EOutOfModel
  | inr e => e <> NotFound
  end ->
  resolve_range fs g = RErr EMismatch.
Proof. exact refuse_unreadable_applied. Qed.
Print Assumptions C17_unreadable_applied_refused.

(* Non-vacuity: an applied-patches line with an unknown option is refused without touching anything (before the fix
   in cmd.rs the file was silently ignored and the series applied from its start). *)
Example C17_witness_unreadable :
  let fs := {| fs_files := [([b "series"], {| f_data := b "a.patch
"; f_mode := 420 |});
                            ([b ".pc"; b "applied-patches"], {| f_data := b "zzz.patch -x
"; f_mode := 420 |});
                            ([b "f"], {| f_data := b "a
"; f_mode := 420 |})];
               fs_dirs := [[b ".pc"]]; fs_log := []; fs_fault := None; fs_fired := false |} in
  let cfg := {| c_fuzz := 0; c_backup := OnFail; c_backup_count := BLast 100; c_dry_run := false; c_default_mode := 420; c_preload := false |} in
  cmd_push cfg [] GAll fs = (fs, RErr EMismatch).
Proof. vm_compute. reflexivity. Qed.
