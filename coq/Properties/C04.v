(* C04 - Undoing an application restores content, existence and permissions exactly, and never
   aborts.  File-patch level (FilePatch::apply / FilePatch::rollback as the drivers call them: the
   rollback direction is the one recorded in the report).  mfile = (content, existed, deleted,
   permissions); `= Ok mf` excludes the explicit panic! of rollback and every index panic.
   wf_fp = what the parser produces (context counts fit; creations/deletions have one hunk);
   small = fewer than isize::MAX lines. *)
From Coq Require Import List ZArith Bool.
Import ListNotations.
From RQ Require Import Base Apply PlaceProofs RollbackAll.
Local Open Scope Z_scope.

(* One application - complete or partial, forward or reversed, any fuzz, Modify / Create / Delete,
   with or without mode change, on a present, empty or absent file - is undone exactly. *)
Theorem C04_rollback_restores :
  forall (line : Type) (line_eqb : line -> line -> bool),
    (forall a b, line_eqb a b = true <-> a = b) ->
    forall (fp : fpatch line) (mf : mfile line) d F mf' rep,
    wf_fp line fp -> small line mf ->
    apply line line_eqb fp mf d F = Ok (mf', rep) ->
    rollback line line_eqb fp mf' (r_dir rep) rep = Ok mf.
Proof. exact rollback_apply. Qed.
Print Assumptions C04_rollback_restores.

(* apply itself never panics on a well-formed file patch. *)
Theorem C04_apply_total :
  forall (line : Type) (line_eqb : line -> line -> bool),
    (forall a b, line_eqb a b = true <-> a = b) ->
    forall (fp : fpatch line) (mf : mfile line) d F,
    wf_fp line fp -> small line mf -> exists mf' rep, apply line line_eqb fp mf d F = Ok (mf', rep).
Proof. exact apply_total. Qed.
Print Assumptions C04_apply_total.

(* Any stack of applications on the same file, undone in reverse order, gives the original back. *)
Theorem C04_stack_lifo :
  forall (line : Type) (line_eqb : line -> line -> bool),
    (forall a b, line_eqb a b = true <-> a = b) ->
    forall ps (mf : mfile line) stack0 mf0 mf' stack,
    Forall (fun p => wf_fp line (fst (fst p))) ps -> all_small line line_eqb ps mf ->
    rollback_all line line_eqb stack0 mf = Ok mf0 ->
    apply_all line line_eqb ps mf stack0 = Ok (mf', stack) ->
    rollback_all line line_eqb stack mf' = Ok mf0.
Proof. exact rollback_all_apply_all. Qed.
Print Assumptions C04_stack_lifo.

(* Non-vacuity: P3b (overlapping contexts: the old rollback could not find its lines), a reversed
   entry (P22) and a creation named on both header lines over an absent file (P8), all undone. *)
Example C04_witness :
  let h rt at_ pre suf rem add := {| h_rem := rem; h_rline := rt; h_add := add; h_aline := at_; h_pre := pre; h_suf := suf |} in
  let fp1 := {| fp_kind := Modify; fp_has_old := true; fp_has_new := true; fp_operm := None; fp_nperm := Some 33261%N;
                fp_hunks := [ h 1 1 2%nat 2%nat [2; 3; 4; 5; 6]%N [2; 3; 5; 6]%N; h 3 2 2%nat 2%nat [4; 5; 6; 7; 8]%N [4; 5; 20; 7; 8]%N ] |} in
  let fp2 := {| fp_kind := Modify; fp_has_old := true; fp_has_new := true; fp_operm := None; fp_nperm := None;
                fp_hunks := [ h 0 0 1%nat 1%nat [1; 99; 3]%N [1; 2; 3]%N ] |} in
  let mf := {| content := [1; 2; 3; 4; 5; 6; 7; 8; 9]%N; existed := true; deleted := false; perm := Some 33188%N |} in
  match apply_all N N.eqb [(fp1, Fwd, 0%nat); (fp2, Rev, 0%nat)] mf [] with
  | Ok (mf', stack) => content mf' = [1; 99; 3; 5; 20; 7; 8; 9]%N /\ perm mf' = Some 33261%N /\
                       rollback_all N N.eqb stack mf' = Ok mf
  | _ => False
  end /\
  let fpc := {| fp_kind := Create; fp_has_old := true; fp_has_new := true; fp_operm := None; fp_nperm := None;
                fp_hunks := [ h 0 0 0%nat 0%nat [] [5]%N ] |} in
  let absent := {| content := @nil N; existed := false; deleted := true; perm := None |} in
  match apply N N.eqb fpc absent Fwd 0 with
  | Ok (mf', rep) => deleted mf' = false /\ rollback N N.eqb fpc mf' (r_dir rep) rep = Ok absent
  | _ => False
  end.
Proof. vm_compute. repeat split; reflexivity. Qed.

(* ---------- tree level: ModifiedFiles::rollback undoes apply_one_file_patch, renames included ---------- *)
From RQ Require Import Parser Quilt ParserWf TreeRollback.

(* a file patch that does not rename: after the rollback every file in memory is as it was loaded *)
Theorem C04_tree_plain :
  forall fs st index pn rev F fp ok st',
  pf_rename fp = false -> good_fp fp ->
  (forall k m, ov_get k (a_files st) = Some m -> small_m m) ->
  (forall k f, fs_read fs (normalize k) = inl f -> zlen (split_lines (f_data f)) < isize_max)%Z ->
  apply_one_file_patch fs st index pn rev F fp = ROk (ok, st') ->
  exists s ov1 file,
    a_applied st' = s :: a_applied st /\
    get_or_load fs (a_files st) (st_target s) = ROk (file, ov1) /\
    exists ov2, ov_rollback (a_files st') s = ROk (ov2, file) /\ ov_equiv ov2 ov1.
Proof. exact rollback_one_plain. Qed.
Print Assumptions C04_tree_plain.

(* a renaming file patch: refused (nothing recorded, both files as loaded) or applied and then undone
   exactly - content, existed/absent status and permissions of BOTH files - also when the new name is an
   existing empty file, when the old file does not exist, and when old and new name coincide *)
Theorem C04_tree_rename :
  forall fs st index pn rev F fp ok st',
  pf_rename fp = true -> good_fp fp ->
  (forall k m, ov_get k (a_files st) = Some m -> small_m m /\ absent_empty m) ->
  (forall k f, fs_read fs (normalize k) = inl f -> zlen (split_lines (f_data f)) < isize_max)%Z ->
  apply_one_file_patch fs st index pn rev F fp = ROk (ok, st') ->
  (a_applied st' = a_applied st /\ ok = false /\
   exists target newname file ov1 newfile ov3,
     get_or_load fs (a_files st) target = ROk (file, ov1) /\
     get_or_load fs ov1 newname = ROk (newfile, ov3) /\ ov_equiv (a_files st') ov3) \/
  (exists s file ov1 newfile ov3,
     a_applied st' = s :: a_applied st /\
     get_or_load fs (a_files st) (st_target s) = ROk (file, ov1) /\
     get_or_load fs ov1 (st_final s) = ROk (newfile, ov3) /\
     exists ov4 back, ov_rollback (a_files st') s = ROk (ov4, back) /\ ov_equiv ov4 ov3 /\ back = file).
Proof. exact rollback_one_rename. Qed.
Print Assumptions C04_tree_rename.

(* every file patch of a patch the parser accepts is well-formed in the sense used above *)
Theorem C04_parser_output_good :
  forall input strip wh p, parse_patch input strip wh = Ok (Parsed p) -> Forall parsed_ok (pp_fps p).
Proof. exact parse_patch_good. Qed.
Print Assumptions C04_parser_output_good.

(* ---------- whole histories (several file patches, several patches) at tree level ---------- *)
From RQ Require Import ViewSim UndoChain.

(* [steps fs st h st2]: st2 is reached from st by any number of file-patch applications (each on a state within the
   size limits, for a file patch the parser accepts); h lists, newest first, each recorded status with the file as it
   was loaded for it.  Undoing the recorded statuses newest first - from the overlay reached, or from any overlay
   similar to it - never fails, gives every name back as it was in st (same lines, existence, effective mode), and
   hands out at each step a file similar to the one that was loaded for that file patch. *)
Theorem C04_tree_whole_history :
  forall dm fs, disk_ok fs -> forall st h st2, steps fs st h st2 ->
    a_applied st2 = List.map fst h ++ a_applied st /\ grows (a_files st) (a_files st2) /\
    Forall (skeys allK (a_files st2)) (List.map fst h) /\
    forall ovA, wsim allK dm fs ovA fs (a_files st2) -> Forall (skeys allK ovA) (List.map fst h) ->
    exists ov_end l, undo_all ovA (List.map fst h) = ROk (ov_end, l) /\ wsim allK dm fs ov_end fs (a_files st) /\
                     hsim dm h l /\ grows ovA ov_end.
Proof. exact undo_chain. Qed.
Print Assumptions C04_tree_whole_history.
