(* C05 - Push is all-or-nothing per patch: tree = first k patches, k = names recorded.
   Proved on the L3 model (sequential driver): (1) the apply loop stops exactly at the first patch with a
   failing hunk, all earlier patches having applied; (2) the names appended to applied-patches are the
   first n names of the requested range and the exit status is 0 exactly when n is the whole range;
   (3) every file patch of the failing patch is rolled back exactly (theorems C04_tree_plain and C04_tree_rename), so what is saved is the
   state after the first n patches; (4) an early error writes nothing.  PARTIAL: the equality of the
   saved tree with an independent specification 'apply_patch_spec folded over the first k patches' is
   decided by the differential runs (model vs binary, and binary vs binary on the truncated series). *)
From Coq Require Import List ZArith NArith Bool.
Import ListNotations.
From RQ Require Import Base Apply Parser Quilt QuiltProofs ParserWf TreeRollback SavedTree.

Theorem C05_stops_at_first_failure :
  forall cfg db series st idx fs fs' st' n rejs,
  apply_series cfg db st idx series fs = (fs', ROk (st', n, rejs)) ->
  fs' = fs /\
  exists pre rest st_mid,
    series = pre ++ rest /\ n = (idx + length pre)%nat /\ all_apply cfg db fs st idx pre st_mid /\
    match rest with
    | [] => st' = st_mid /\ rejs = []
    | sp :: _ =>
        exists st_f, patch_outcome cfg db fs st_mid n sp = Some (true, st_f) /\
          (if c_dry_run cfg then st' = st_f /\ rejs = []
           else rollback_and_render_rej (S (length (a_applied st_f))) st_f n [] = ROk (st', rejs))
    end.
Proof. exact apply_series_first_failure. Qed.
Print Assumptions C05_stops_at_first_failure.

(* rolling the failing patch back removes exactly its file patches from the stack of applied ones: what
   is saved afterwards is the state the earlier patches left *)
Theorem C05_failing_patch_leaves_the_stack :
  forall fuel st index acc st' rejs,
  rollback_and_render_rej fuel st index acc = ROk (st', rejs) ->
  (length (a_applied st) < fuel)%nat ->
  exists l, rejs = fold_left (fun a r => add_rej (fst r) (snd r) a) l acc /\
            a_applied st' = below (a_applied st) index /\
            Forall2 (fun s r => fst r = rej_name (st_target s) /\ write_rej_bytes s = ROk (snd r))
                    (rejected (a_applied st) index) l.
Proof. exact render_spec. Qed.
Print Assumptions C05_failing_patch_leaves_the_stack.

Theorem C05_records_exactly_the_applied :
  forall cfg db g fs fs' ok,
  cmd_push cfg db g fs = (fs', ROk ok) ->
  exists series first last,
    resolve_range fs g = ROk (series, first, last) /\
    ((first = last /\ ok = true /\ fs' = fs) \/
     (first <> last /\
      exists n fs1, fst (apply_patches cfg db (firstn (last - first) (skipn first series)) fs) = fs1 /\
                    snd (apply_patches cfg db (firstn (last - first) (skipn first series)) fs) = ROk n /\
                    ok = Nat.eqb n (length (firstn (last - first) (skipn first series))) /\
                    (c_dry_run cfg = false ->
                     snd (save_applied (c_default_mode cfg) (firstn n (firstn (last - first) (skipn first series))) fs1) = ROk tt))).
Proof. exact push_records_applied. Qed.
Print Assumptions C05_records_exactly_the_applied.

Theorem C05_failing_file_patch_undone :
  forall fs st index pn rev F fp ok st',
  pf_rename fp = false -> good_fp fp ->
  (forall k m, ov_get k (a_files st) = Some m -> small_m m) ->
  (forall k f, fs_read fs (normalize k) = inl f -> zlen (split_lines (f_data f)) < isize_max)%Z ->
  apply_one_file_patch fs st index pn rev F fp = ROk (ok, st') ->
  exists s ov1 file,
    a_applied st' = s :: a_applied st /\
    get_or_load fs (a_files st) (st_target s) = ROk (file, ov1) /\
    exists ov2, ov_rollback (a_files st') s = ROk (ov2, file) /\ ov_equiv ov2 ov1.
Proof. exact rollback_one_plain. Qed.
Print Assumptions C05_failing_file_patch_undone.

Theorem C05_early_error_touches_nothing :
  forall cfg db g, early_clean (cmd_push cfg db g).
Proof. exact push_early_error_writes_nothing. Qed.
Print Assumptions C05_early_error_touches_nothing.

(* the save phase: the tree afterwards is the starting tree overridden by the overlay - and the overlay is the
   in-memory state after exactly the patches that applied (C05_stops_at_first_failure,
   C05_failing_patch_leaves_the_stack) *)
Theorem C05_saved_tree_is_start_plus_overlay :
  forall cfg db series fs fs1 st n rejs dm cl fs2 cl',
  is_file fs [] = false ->
  apply_series cfg db {| a_applied := []; a_files := [] |} 0 series fs = (fs1, ROk (st, n, rejs)) ->
  save_all dm (a_files st) cl fs1 = (fs2, ROk cl') ->
  (forall k m, In (k, m) (a_files st) ->
     if deleted m then is_file fs2 (normalize k) = false
     else exists md, lookup_file (normalize k) (fs_files fs2) = Some {| f_data := concat_lines (content m); f_mode := md |}) /\
  (forall q, ~ In q (map nkey (a_files st)) -> lookup_file q (fs_files fs2) = lookup_file q (fs_files fs)).
Proof. exact push_saved_tree_closed. Qed.
Print Assumptions C05_saved_tree_is_start_plus_overlay.

(* ---------- the failing patch leaves no change (second clause), for a patch with any number of file patches ---------- *)
From RQ Require Import ViewSim UndoChain.

(* after the reject walk the stack is the one before the failing patch and every name is what it was before it -
   same lines, same existence, same effective mode - so the save phase writes the tree of the first k patches *)
Theorem C05_failing_patch_leaves_no_change :
  forall dm fs index sp fuzz fps st af st1 stf rejs fuel,
    disk_ok fs -> run_ok fs st index sp fuzz fps ->
    (forall s, In s (a_applied st) -> (st_index s < index)%nat) ->
    apply_file_patches fs st index sp fuzz fps af = ROk (true, st1) ->
    (length (a_applied st1) < fuel)%nat ->
    rollback_and_render_rej fuel st1 index [] = ROk (stf, rejs) ->
    a_applied stf = a_applied st /\ wsim allK dm fs (a_files stf) fs (a_files st).
Proof. exact failing_patch_leaves_no_change. Qed.
Print Assumptions C05_failing_patch_leaves_no_change.
