(* C05 - Push is all-or-nothing per patch: tree = first k patches, k = names recorded.
   Proved on the L3 model (sequential driver): (1) the apply loop stops exactly at the first patch with a
   failing hunk, all earlier patches having applied; (2) the names appended to applied-patches are the
   first n names of the requested range and the exit status is 0 exactly when n is the whole range;
   (3) every file patch of the failing patch is rolled back exactly (theorems C04_tree_plain and C04_tree_rename), so what is saved is the
   state after the first n patches; (4) an early error writes nothing.  PARTIAL: the equality of the
   saved tree with an independent specification 'apply_patch_spec folded over the first k patches' is
   decided by the differential runs (model vs binary, and binary vs binary on the truncated series). *)
From Coq Require Import List ZArith NArith Bool.
Import ListNotations.
From RQ Require Import Base Apply Parser Quilt QuiltProofs ParserWf TreeRollback SavedTree.

Theorem C05_stops_at_first_failure :
  forall cfg db series st idx fs fs' st' n rejs,
  apply_series cfg db st idx series fs = (fs', ROk (st', n, rejs)) ->
  fs' = fs /\
  exists pre rest st_mid,
    series = pre ++ rest /\ n = (idx + length pre)%nat /\ all_apply cfg db fs st idx pre st_mid /\
    match rest with
    | [] => st' = st_mid /\ rejs = []
    | sp :: _ =>
        exists st_f, patch_outcome cfg db fs st_mid n sp = Some (true, st_f) /\
          (if c_dry_run cfg then st' = st_f /\ rejs = []
           else rollback_and_render_rej (S (length (a_applied st_f))) st_f n [] = ROk (st', rejs))
    end.
Proof. exact apply_series_first_failure. Qed.
Print Assumptions C05_stops_at_first_failure.

(* rolling the failing patch back removes exactly its file patches from the stack of applied ones: what
   is saved afterwards is the state the earlier patches left *)
Theorem C05_failing_patch_leaves_the_stack :
  forall fuel st index acc st' rejs,
  rollback_and_render_rej fuel st index acc = ROk (st', rejs) ->
  (length (a_applied st) < fuel)%nat ->
  exists l, rejs = fold_left (fun a r => add_rej (fst r) (snd r) a) l acc /\
            a_applied st' = below (a_applied st) index /\
            Forall2 (fun s r => fst r = rej_name (st_target s) /\ write_rej_bytes s = ROk (snd r))
                    (rejected (a_applied st) index) l.
Proof. exact render_spec. Qed.
Print Assumptions C05_failing_patch_leaves_the_stack.

Theorem C05_records_exactly_the_applied :
  forall cfg db g fs fs' ok,
  cmd_push cfg db g fs = (fs', ROk ok) ->
  exists series first last,
    resolve_range fs g = ROk (series, first, last) /\
    ((first = last /\ ok = true /\ fs' = fs) \/
     (first <> last /\
      exists n fs1, fst (apply_patches cfg db (firstn (last - first) (skipn first series)) fs) = fs1 /\
                    snd (apply_patches cfg db (firstn (last - first) (skipn first series)) fs) = ROk n /\
                    ok = Nat.eqb n (length (firstn (last - first) (skipn first series))) /\
                    (c_dry_run cfg = false ->
                     snd (save_applied (c_default_mode cfg) (firstn n (firstn (last - first) (skipn first series))) fs1) = ROk tt))).
Proof. exact push_records_applied. Qed.
Print Assumptions C05_records_exactly_the_applied.

Theorem C05_failing_file_patch_undone :
  forall fs st index pn rev F fp ok st',
  pf_rename fp = false -> good_fp fp ->
  (forall k m, ov_get k (a_files st) = Some m -> small_m m) ->
  (forall k f, fs_read fs (normalize k) = inl f -> zlen (split_lines (f_data f)) < isize_max)%Z ->
  apply_one_file_patch fs st index pn rev F fp = ROk (ok, st') ->
  exists s ov1 file,
    a_applied st' = s :: a_applied st /\
    get_or_load fs (a_files st) (st_target s) = ROk (file, ov1) /\
    exists ov2, ov_rollback (a_files st') s = ROk (ov2, file) /\ ov_equiv ov2 ov1.
Proof. exact rollback_one_plain. Qed.
Print Assumptions C05_failing_file_patch_undone.

Theorem C05_early_error_touches_nothing :
  forall cfg db g, early_clean (cmd_push cfg db g).
Proof. exact push_early_error_writes_nothing. Qed.
Print Assumptions C05_early_error_touches_nothing.

(* the save phase: the tree afterwards is the starting tree overridden by the overlay - and the overlay is the
   in-memory state after exactly the patches that applied (C05_stops_at_first_failure,
   C05_failing_patch_leaves_the_stack) *)
Theorem C05_saved_tree_is_start_plus_overlay :
  forall cfg db series fs fs1 st n rejs dm cl fs2 cl',
  is_file fs [] = false ->
  apply_series cfg db {| a_applied := []; a_files := [] |} 0 series fs = (fs1, ROk (st, n, rejs)) ->
  save_all dm (a_files st) cl fs1 = (fs2, ROk cl') ->
  (forall k m, In (k, m) (a_files st) ->
     if deleted m then is_file fs2 (normalize k) = false
     else exists md, lookup_file (normalize k) (fs_files fs2) = Some {| f_data := concat_lines (content m); f_mode := md |}) /\
  (forall q, ~ In q (map nkey (a_files st)) -> lookup_file q (fs_files fs2) = lookup_file q (fs_files fs)).
Proof. exact push_saved_tree_closed. Qed.
Print Assumptions C05_saved_tree_is_start_plus_overlay.

(* ---------- the failing patch leaves no change (second clause), for a patch with any number of file patches ---------- *)
From RQ Require Import ViewSim UndoChain.

(* after the reject walk the stack is the one before the failing patch and every name is what it was before it -
   same lines, same existence, same effective mode - so the save phase writes the tree of the first k patches *)
Theorem C05_failing_patch_leaves_no_change :
  forall dm fs index sp fuzz fps st af st1 stf rejs fuel,
    disk_ok fs -> run_ok fs st index sp fuzz fps ->
    (forall s, In s (a_applied st) -> (st_index s < index)%nat) ->
    apply_file_patches fs st index sp fuzz fps af = ROk (true, st1) ->
    (length (a_applied st1) < fuel)%nat ->
    rollback_and_render_rej fuel st1 index [] = ROk (stf, rejs) ->
    a_applied stf = a_applied st /\ wsim allK dm fs (a_files stf) fs (a_files st).
Proof. exact failing_patch_leaves_no_change. Qed.
Print Assumptions C05_failing_patch_leaves_no_change.

(* ---------- the headline: the state handed to the save phase is that of the first k patches ---------- *)
From RQ Require Import PushPrefix.

(* Whatever the loop returns (final index n, having started at idx): applying only the first n - idx patches of the
   range gives the same stack of applied file patches and, name by name, the same files - lines, existence, effective
   mode.  With C05_saved_tree_is_start_plus_overlay the tree after the push is the starting tree with exactly those
   patches applied; with C05_records_exactly_the_applied those are the names recorded. *)
Theorem C05_push_is_the_first_k_patches :
  forall dm cfg db fs, disk_ok fs -> c_dry_run cfg = false ->
  forall series st idx st' n rejs,
    apply_series cfg db st idx series fs = (fs, ROk (st', n, rejs)) ->
    series_run_ok cfg db fs st idx series ->
    (forall s, In s (a_applied st) -> (st_index s < idx)%nat) ->
    (idx <= n)%nat /\
    exists stk, apply_series cfg db st idx (firstn (n - idx) series) fs = (fs, ROk (stk, n, [])) /\
                a_applied st' = a_applied stk /\ wsim allK dm fs (a_files st') fs (a_files stk) /\
                (forall s, In s (a_applied stk) -> (st_index s < n)%nat).
Proof. exact push_is_prefix. Qed.
Print Assumptions C05_push_is_the_first_k_patches.

(* ... down to the tree on disk: after the save phase the tree reads, name by name, as the starting tree with exactly
   the first k patches applied (k = n - idx, the number of names recorded) *)
Theorem C05_tree_after_push_is_first_k :
  forall K dm cfg db fs series st idx st' n rejs fs1 cl,
    disk_ok fs -> c_dry_run cfg = false -> fs_fault fs = None ->
    apply_series cfg db st idx series fs = (fs, ROk (st', n, rejs)) ->
    series_run_ok cfg db fs st idx series ->
    (forall s, In s (a_applied st) -> (st_index s < idx)%nat) ->
    save_all dm (a_files st') [] fs = (fs1, ROk cl) ->
    SaveReads.keys_indep (a_files st') -> Forall (SaveReads.entry_start_ok fs) (a_files st') ->
    Forall (SaveReads.entry_ok dm) (a_files st') ->
    (forall k, okkey K k -> ov_get k (a_files st') = None ->
               Forall (fun e => SaveReads.indep (normalize k) (SaveReads.kpath e)) (a_files st')) ->
    exists stk, apply_series cfg db st idx (firstn (n - idx) series) fs = (fs, ROk (stk, n, [])) /\
                wsim K dm fs (a_files stk) (fst (clean_all cl fs1)) [].
Proof. exact tree_after_push_is_first_k. Qed.
Print Assumptions C05_tree_after_push_is_first_k.

(* ---------- the same with the premises on absent entries discharged ---------- *)
From RQ Require Import AbsentInv NameSafety.

(* An overlay entry that stands for an absent file carries no content and no mode, and every key is in canonical
   spelling - for every overlay the loop builds, including the undo walk of the failing patch.  What remains as
   premises of the tree theorem: the size limit of the L1 theorems along the run (series_sizes: every file in every
   state passed has fewer than 2^63 lines; a computation for a concrete run), the line structure of the final entries
   (false exactly for the finding no-newline-midfile), names that do not run through each other (false exactly for
   dir-and-file) and what the existed flags say about the start (LoadedState.linv_start_ok). *)
Theorem C05_absent_entries_are_clean :
  forall dm cfg db fs, disk_ok fs -> c_dry_run cfg = false ->
  forall series st idx st' n rejs,
    apply_series cfg db st idx series fs = (fs, ROk (st', n, rejs)) ->
    series_run_small cfg db fs st idx series ->
    (forall s, In s (a_applied st) -> (st_index s < idx)%nat) ->
    ainv dm (a_files st) -> ainv dm (a_files st').
Proof. exact apply_series_ainv. Qed.
Print Assumptions C05_absent_entries_are_clean.

Theorem C05_pushed_tree_is_first_k :
  forall K dm cfg db fs series st idx st' n rejs fs1 cl,
    disk_ok fs -> c_dry_run cfg = false -> fs_fault fs = None ->
    apply_series cfg db st idx series fs = (fs, ROk (st', n, rejs)) ->
    series_sizes cfg db fs st idx series ->
    (forall s, In s (a_applied st) -> (st_index s < idx)%nat) ->
    st_ok st -> ainv dm (a_files st) ->
    save_all dm (a_files st') [] fs = (fs1, ROk cl) ->
    SaveReads.keys_indep (a_files st') -> Forall (SaveReads.entry_start_ok fs) (a_files st') ->
    Forall lines_ok (a_files st') ->
    (forall k, okkey K k -> ov_get k (a_files st') = None ->
               Forall (fun e => SaveReads.indep (normalize k) (SaveReads.kpath e)) (a_files st')) ->
    exists stk, apply_series cfg db st idx (firstn (n - idx) series) fs = (fs, ROk (stk, n, [])) /\
                wsim K dm fs (a_files stk) (fst (clean_all cl fs1)) [].
Proof. exact pushed_tree_is_first_k. Qed.
Print Assumptions C05_pushed_tree_is_first_k.

(* the premises are met by a concrete push: two patches on one file, the second fails *)
From Coq Require Import String.
From RQ Require Import Lines Reload.
Definition c05_nl := String (Ascii.ascii_of_nat 10) EmptyString.
Definition c05_p1 := b ("--- a/f" ++ c05_nl ++ "+++ b/f" ++ c05_nl ++ "@@ -2 +2 @@" ++ c05_nl ++ "-b" ++ c05_nl ++ "+B" ++ c05_nl)%string.
Definition c05_p2 := b ("--- a/f" ++ c05_nl ++ "+++ b/f" ++ c05_nl ++ "@@ -1 +1 @@" ++ c05_nl ++ "-zzz" ++ c05_nl ++ "+Q" ++ c05_nl)%string.
Definition c05_fs : fsys :=
  {| fs_files := [([b "f"], {| f_data := b ("a" ++ c05_nl ++ "b" ++ c05_nl)%string; f_mode := 420 |})];
     fs_dirs := []; fs_log := []; fs_fault := None; fs_fired := false |}.
Definition c05_db : patches_db := [(b "p1", c05_p1); (b "p2", c05_p2)].
Definition c05_cfg : config :=
  {| c_fuzz := 0; c_backup := Never; c_backup_count := BAll; c_dry_run := false; c_default_mode := 420; c_preload := false |}.
Definition c05_series := [ {| sp_name := b "p1"; sp_strip := 1; sp_reverse := false |};
                           {| sp_name := b "p2"; sp_strip := 1; sp_reverse := false |} ].
Definition c05_empty : astate := {| a_applied := []; a_files := [] |}.
Definition c05_run := apply_series c05_cfg c05_db c05_empty 0 c05_series c05_fs.
Definition c05_st : astate := match snd c05_run with ROk (st, _, _) => st | _ => c05_empty end.
Definition c05_rejs : list rej_file := match snd c05_run with ROk (_, _, r) => r | _ => [] end.
Definition c05_saved := save_all 420 (a_files c05_st) [] c05_fs.
Definition c05_cl : list npath := match snd c05_saved with ROk cl => cl | _ => [] end.

Example C05_premises_met :
  c05_run = (c05_fs, ROk (c05_st, 1%nat, c05_rejs)) /\ c05_rejs <> [] /\ a_files c05_st <> [] /\
  disk_ok c05_fs /\ series_sizes c05_cfg c05_db c05_fs c05_empty 0 c05_series /\
  st_ok c05_empty /\ ainv 420 (a_files c05_empty) /\
  c05_saved = (fst c05_saved, ROk c05_cl) /\
  SaveReads.keys_indep (a_files c05_st) /\ Forall (SaveReads.entry_start_ok c05_fs) (a_files c05_st) /\
  Forall lines_ok (a_files c05_st) /\
  (forall k, okkey (fun k => k = b "g") k -> ov_get k (a_files c05_st) = None ->
             Forall (fun e => SaveReads.indep (normalize k) (SaveReads.kpath e)) (a_files c05_st)).
Proof.
  split; [vm_compute; reflexivity|]. split; [vm_compute; discriminate|]. split; [vm_compute; discriminate|].
  split.
  { intros k f H. unfold fs_read in H. destruct (normalize k) as [|c r]; [discriminate|].
    destruct (existsb _ _); [discriminate|]. cbn [c05_fs fs_files lookup_file] in H.
    destruct (npath_eqb (c :: r) [b "f"]); [injection H as <-; vm_compute; reflexivity|].
    destruct (is_dir _ _); discriminate. }
  split; [apply series_sizesb_ok; vm_compute; reflexivity|].
  destruct (empty_state_ok 420) as (Hok & Hinv & _). split; [exact Hok|]. split; [exact Hinv|].
  split; [vm_compute; reflexivity|].
  assert (Hov : a_files c05_st = [(b "f", {| content := split_lines (b ("a" ++ c05_nl ++ "B" ++ c05_nl)%string);
                                             existed := true; deleted := false; perm := Some 33188%N |})])
    by (vm_compute; reflexivity).
  rewrite Hov. split; [split; [constructor|exact I]|]. split.
  { constructor; [|constructor]. split; [reflexivity|]. split; [reflexivity|discriminate]. }
  split.
  { constructor; [|constructor]. apply split_lines_wf. }
  intros k [-> _] _. constructor; [|constructor]. unfold SaveReads.indep, SaveReads.pprefix, SaveReads.kpath.
  split; [vm_compute; discriminate|]. split; vm_compute; intros [].
Qed.

(* The headline for a push that starts from nothing applied.  Premises: sizes (disk_ok, series_sizes), no injected
   fault, a starting tree in which nothing is both file and directory, the save phase succeeds, and of the final
   overlay: no entry names the working directory itself, no name runs through another (dir-and-file), the lines are
   well-formed (no-newline-midfile); the last premise says which other names the statement speaks about. *)
Theorem C05_pushed_tree_from_scratch :
  forall K dm cfg db fs series st' n rejs fs1 cl,
    disk_ok fs -> c_dry_run cfg = false -> fs_fault fs = None -> LoadedState.no_file_dir fs ->
    apply_series cfg db {| a_applied := []; a_files := [] |} 0 series fs = (fs, ROk (st', n, rejs)) ->
    series_sizes cfg db fs {| a_applied := []; a_files := [] |} 0 series ->
    save_all dm (a_files st') [] fs = (fs1, ROk cl) ->
    Forall (fun e => SaveReads.kpath e <> []) (a_files st') -> no_through (a_files st') -> Forall lines_ok (a_files st') ->
    (forall k, okkey K k -> ov_get k (a_files st') = None ->
               Forall (fun e => SaveReads.indep (normalize k) (SaveReads.kpath e)) (a_files st')) ->
    exists stk, apply_series cfg db {| a_applied := []; a_files := [] |} 0 (firstn n series) fs = (fs, ROk (stk, n, [])) /\
                wsim K dm fs (a_files stk) (fst (clean_all cl fs1)) [].
Proof. exact pushed_tree_from_scratch. Qed.
Print Assumptions C05_pushed_tree_from_scratch.

Example C05_scratch_premises_met :
  LoadedState.no_file_dir c05_fs /\ Forall (fun e => SaveReads.kpath e <> []) (a_files c05_st) /\ no_through (a_files c05_st).
Proof.
  assert (Hov : a_files c05_st = [(b "f", {| content := split_lines (b ("a" ++ c05_nl ++ "B" ++ c05_nl)%string);
                                             existed := true; deleted := false; perm := Some 33188%N |})])
    by (vm_compute; reflexivity).
  rewrite Hov. split; [|split].
  - intros p Hfile. destruct p as [|c r]; [vm_compute in Hfile; discriminate Hfile|reflexivity].
  - constructor; [vm_compute; discriminate|constructor].
  - intros e e' [<-|[]] [<-|[]]. vm_compute. intros [].
Qed.
