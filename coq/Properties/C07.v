(* C07 - File names related through any patch are always handled by the same worker.
   Only statements here; every proof is `exact <lemma of DistributorProofs>`. *)
From Coq Require Import List Arith NArith Relations.
Import ListNotations.
From RQ Require Import Base Distributor DistributorProofs.

(* For every sequence of (name, optional related name) pairs, in any order and multiplicity,
   and every positive thread count: building the map neither panics nor loops; both names of
   every pair get the same worker; every name gets a worker below the thread count. *)
Theorem C07_same_worker :
  forall (name : Type) (name_eqb : name -> name -> bool),
    (forall a b, name_eqb a b = true <-> a = b) ->
    forall (ops : list (name * option name)) (threads : nat), 0 < threads ->
    exists m, distribute name name_eqb threads ops = Ok m /\
      (forall a b, In (a, Some b) ops ->
         exists t, thread_of name name_eqb m a = Some t /\ thread_of name name_eqb m b = Some t /\ t < threads) /\
      (forall a o, In (a, o) ops -> exists t, thread_of name name_eqb m a = Some t /\ t < threads).
Proof. exact distribute_ok. Qed.
Print Assumptions C07_same_worker.

(* ... directly or through a chain of such relations (reflexive-symmetric-transitive closure). *)
Theorem C07_chain :
  forall (name : Type) (name_eqb : name -> name -> bool),
    (forall a b, name_eqb a b = true <-> a = b) ->
    forall ops threads m, 0 < threads ->
    distribute name name_eqb threads ops = Ok m ->
    forall a b, clos_refl_sym_trans name (fun x y => In (x, Some y) ops) a b ->
                thread_of name name_eqb m a = thread_of name name_eqb m b.
Proof. exact distribute_chain. Qed.
Print Assumptions C07_chain.

(* The boolean oracle that is run on the implementation's map says exactly the above. *)
Theorem C07_oracle_sound :
  forall (name : Type) (name_eqb : name -> name -> bool) ops threads m,
    classes_ok name name_eqb ops threads m = true <->
    (forall a b, In (a, Some b) ops ->
       exists t, thread_of name name_eqb m a = Some t /\ thread_of name name_eqb m b = Some t /\ t < threads) /\
    (forall a o, In (a, o) ops -> exists t, thread_of name name_eqb m a = Some t /\ t < threads).
Proof. exact classes_ok_spec. Qed.
Print Assumptions C07_oracle_sound.

(* Non-vacuity: the witness that broke the code before the fix (add(A,B); add(C,B); add(C,B)),
   with a further chain; all of 1,2,3,4 end on one worker, 9 on another. *)
Example C07_witness :

  distribute N N.eqb 4 [(1, Some 2); (3, Some 2); (3, Some 2); (9, None); (4, Some 3)]%N
  = Ok [(1%N, 0); (2%N, 0); (3%N, 0); (9%N, 3); (4%N, 0)].
Proof. vm_compute. reflexivity. Qed.
