(* C08 - Quilt metadata is exact: backups allow popping, applied-patches matches the tree.
   Proved on the L3 model: when the backup phase runs (never / onfail / always), which statuses it
   covers (the window of the last n applied patches), what each step writes - the file as
   ModifiedFiles::rollback returns it, which by C04_tree_plain / C04_tree_rename is the file's state
   before that file patch - and that applied-patches gains exactly the applied names
   (C05_records_exactly_the_applied).  PARTIAL: that restoring the backups in reverse order recreates
   the pre-push tree (pop_spec) is decided by the runs: the implementation's .pc tree is popped by the
   check and compared with snapshots taken by pushing one patch at a time. *)
From Coq Require Import List ZArith NArith Bool.
Import ListNotations.
From RQ Require Import Base Apply Parser Quilt QuiltProofs TreeRollback.

Theorem C08_never_means_no_backup_phase :
  forall cfg db series, c_backup cfg = Never -> c_dry_run cfg = false ->
  apply_patches cfg db series =
  (dom x <- apply_series cfg db {| a_applied := []; a_files := [] |} 0 series;
   let '(st, final, rejs) := x in
   dom cleaning <- save_all (c_default_mode cfg) (a_files st) [];
   dom _ <- clean_all cleaning;
   dom _ <- save_rej_files (c_default_mode cfg) rejs; mret final).
Proof. exact backup_never. Qed.
Print Assumptions C08_never_means_no_backup_phase.

Theorem C08_when_and_window :
  forall cfg db series, c_dry_run cfg = false ->
  apply_patches cfg db series =
  (dom x <- apply_series cfg db {| a_applied := []; a_files := [] |} 0 series;
   let '(st, final, rejs) := x in
   dom cleaning <- save_all (c_default_mode cfg) (a_files st) [];
   dom _ <- clean_all cleaning;
   dom _ <- save_rej_files (c_default_mode cfg) rejs;
   if match c_backup cfg with Always => true | OnFail => negb (Nat.eqb final (length series)) | Never => false end
   then dom _ <- backups (c_default_mode cfg) (a_files st) (a_applied st)
                         (match c_backup_count cfg with BAll => 0%nat | BLast n => (final - n)%nat end);
        mret final
   else mret final).
Proof. exact backup_window. Qed.
Print Assumptions C08_when_and_window.

Theorem C08_backup_is_rolled_back_file :
  forall dm ov s rest down_to, (down_to <= st_index s)%nat ->
  backups dm ov (s :: rest) down_to =
  (dom r <- mlift (ov_rollback ov s);
   let '(ov', file) := r in
   dom _ <- save_backup dm (st_patch s) (st_target s) file;
   dom _ <- (if pf_rename (st_fp s) then
               match knew (st_fp s) with
               | None => mlift RPanic
               | Some n => match ov_get n ov' with None => mlift RPanic | Some nf => save_backup dm (st_patch s) n nf end
               end
             else mret tt);
   backups dm ov' rest down_to).
Proof. exact backups_step. Qed.
Print Assumptions C08_backup_is_rolled_back_file.

Theorem C08_outside_window_untouched :
  forall dm ov s rest down_to, (st_index s < down_to)%nat -> backups dm ov (s :: rest) down_to = mret tt.
Proof. exact backups_stop. Qed.
Print Assumptions C08_outside_window_untouched.

(* default settings read from the source: --backup onfail, --backup-count 100 *)
Example C08_defaults : default_backup_onfail = OnFail /\ default_backup_count = 100%nat.
Proof. split; reflexivity. Qed.

(* ---------- what the backup files hold ---------- *)
From RQ Require Import ViewSim UndoChain.

(* The backup phase walks the stack newest first and writes, for each status, the file that ModifiedFiles::rollback
   hands out (C08_backup_is_rolled_back_file).  Over any history of applications that walk is [undo_all]: it never
   fails, each file handed out is - lines, existence, effective mode - the file as it was loaded for that file patch,
   i.e. its state immediately before it, and when the walk has passed a patch every name is what it was before
   that patch (hsim pairs the history with the files handed out). *)
Theorem C08_backups_hold_the_state_before :
  forall dm fs, disk_ok fs -> forall st h st2, steps fs st h st2 ->
    exists ov_end l, undo_all (a_files st2) (List.map fst h) = ROk (ov_end, l) /\
                     wsim allK dm fs ov_end fs (a_files st) /\ hsim dm h l.
Proof. exact backups_hold_the_state_before. Qed.
Print Assumptions C08_backups_hold_the_state_before.
