(* C08 - Quilt metadata is exact: backups allow popping, applied-patches matches the tree.
   Proved on the L3 model: when the backup phase runs (never / onfail / always), which statuses it
   covers (the window of the last n applied patches), what each step writes - the file as
   ModifiedFiles::rollback returns it, which by C04_tree_plain / C04_tree_rename is the file's state
   before that file patch - and that applied-patches gains exactly the applied names
   (C05_records_exactly_the_applied).  That restoring the backups newest first recreates the tree before
   the push is proved at the level of what names read as (C08_pop_restores_all: every history, renames
   included; the walk is what Quilt.backups writes: C08_backups_write_the_walk).  PARTIAL: that a backup
   FILE under .pc reads back as the file it was written from (zero length for "was not there") is decided
   by the runs: the implementation's .pc tree is popped by the check and compared with snapshots taken by
   pushing one patch at a time. *)
From Coq Require Import List ZArith NArith Bool.
Import ListNotations.
From RQ Require Import Base Apply Parser Quilt QuiltProofs TreeRollback.

Theorem C08_never_means_no_backup_phase :
  forall cfg db series, c_backup cfg = Never -> c_dry_run cfg = false ->
  apply_patches cfg db series =
  (dom x <- apply_series cfg db {| a_applied := []; a_files := [] |} 0 series;
   let '(st, final, rejs) := x in
   dom cleaning <- save_all (c_default_mode cfg) (a_files st) [];
   dom _ <- clean_all cleaning;
   dom _ <- save_rej_files (c_default_mode cfg) rejs; mret final).
Proof. exact backup_never. Qed.
Print Assumptions C08_never_means_no_backup_phase.

Theorem C08_when_and_window :
  forall cfg db series, c_dry_run cfg = false ->
  apply_patches cfg db series =
  (dom x <- apply_series cfg db {| a_applied := []; a_files := [] |} 0 series;
   let '(st, final, rejs) := x in
   dom cleaning <- save_all (c_default_mode cfg) (a_files st) [];
   dom _ <- clean_all cleaning;
   dom _ <- save_rej_files (c_default_mode cfg) rejs;
   if match c_backup cfg with Always => true | OnFail => negb (Nat.eqb final (length series)) | Never => false end
   then dom _ <- backups (c_default_mode cfg) (a_files st) (a_applied st)
                         (match c_backup_count cfg with BAll => 0%nat | BLast n => (final - n)%nat end);
        mret final
   else mret final).
Proof. exact backup_window. Qed.
Print Assumptions C08_when_and_window.

Theorem C08_backup_is_rolled_back_file :
  forall dm ov s rest down_to, (down_to <= st_index s)%nat ->
  backups dm ov (s :: rest) down_to =
  (dom r <- mlift (ov_rollback ov s);
   let '(ov', file) := r in
   dom _ <- save_backup dm (st_patch s) (st_target s) file;
   dom _ <- (if pf_rename (st_fp s) then
               match knew (st_fp s) with
               | None => mlift RPanic
               | Some n => match ov_get n ov' with None => mlift RPanic | Some nf => save_backup dm (st_patch s) n nf end
               end
             else mret tt);
   backups dm ov' rest down_to).
Proof. exact backups_step. Qed.
Print Assumptions C08_backup_is_rolled_back_file.

Theorem C08_outside_window_untouched :
  forall dm ov s rest down_to, (st_index s < down_to)%nat -> backups dm ov (s :: rest) down_to = mret tt.
Proof. exact backups_stop. Qed.
Print Assumptions C08_outside_window_untouched.

(* default settings read from the source: --backup onfail, --backup-count 100 *)
Example C08_defaults : default_backup_onfail = OnFail /\ default_backup_count = 100%nat.
Proof. split; reflexivity. Qed.

(* ---------- what the backup files hold ---------- *)
From RQ Require Import ViewSim UndoChain.

(* The backup phase walks the stack newest first and writes, for each status, the file that ModifiedFiles::rollback
   hands out (C08_backup_is_rolled_back_file).  Over any history of applications that walk is [undo_all]: it never
   fails, each file handed out is - lines, existence, effective mode - the file as it was loaded for that file patch,
   i.e. its state immediately before it, and when the walk has passed a patch every name is what it was before
   that patch (hsim pairs the history with the files handed out). *)
Theorem C08_backups_hold_the_state_before :
  forall dm fs, disk_ok fs -> forall st h st2, steps fs st h st2 ->
    exists ov_end l, undo_all (a_files st2) (List.map fst h) = ROk (ov_end, l) /\
                     wsim allK dm fs ov_end fs (a_files st) /\ hsim dm h l.
Proof. exact backups_hold_the_state_before. Qed.
Print Assumptions C08_backups_hold_the_state_before.

(* ---------- restoring the backups recreates the tree before the push ---------- *)
From RQ Require Import PopRestores ParserWf.

(* For a history without renames: the files the backup walk hands out (l, newest first; each is written to
   .pc/<patch>/<target>, C08_backup_is_rolled_back_file), put back under their names in that order (pop_all), leave
   every name reading as it did before the history - lines, existence, effective mode.  (Histories without renames;
   the general statement follows below.) *)
Theorem C08_pop_restores :
  forall dm fs, disk_ok fs -> forall st h st2, plain_steps fs st h st2 ->
    exists ov_end l, undo_all (a_files st2) (List.map fst h) = ROk (ov_end, l) /\ hsim dm h l /\
                     List.map fst l = List.map fst h /\
                     wsim allK dm fs (pop_all l (a_files st2)) fs (a_files st).
Proof. exact pop_restores. Qed.
Print Assumptions C08_pop_restores.

(* the file patches of a patch (none a rename) form such a history, and histories compose over the patches of a push *)
Theorem C08_patches_form_plain_histories :
  (forall fs index sp fuzz fps st af af' st',
     apply_file_patches fs st index sp fuzz fps af = ROk (af', st') -> run_ok fs st index sp fuzz fps ->
     Forall (fun fp => pf_rename fp = false) fps -> exists h, plain_steps fs st h st') /\
  (forall fs st h1 st1, plain_steps fs st h1 st1 -> forall h2 st2, plain_steps fs st1 h2 st2 -> plain_steps fs st (h2 ++ h1) st2).
Proof. split; [exact apply_file_patches_plain_steps|exact plain_steps_app]. Qed.
Print Assumptions C08_patches_form_plain_histories.

(* every history, renames included: a renaming status has two backups (its target name and the new name of its file
   patch); the walk never gets stuck, its outputs pair with the history (hsim: each file for a target name is the
   file as it was loaded for that file patch), and restoring all of them newest first leaves every name reading as
   before the history *)
Theorem C08_pop_restores_all :
  forall dm fs, disk_ok fs -> forall st h st2, steps fs st h st2 ->
    exists ov_end l, walk (a_files st2) (List.map fst h) = ROk (ov_end, l) /\ hsim dm h (List.map fst l) /\
                     wsim allK dm fs (pop_all2 l (a_files st2)) fs (a_files st).
Proof. exact pop_restores_all. Qed.
Print Assumptions C08_pop_restores_all.

(* and that walk is, file by file and name by name, what the backup phase writes inside its window *)
Theorem C08_backups_write_the_walk :
  forall dm down_to ss ov ov_end l,
    walk ov ss = ROk (ov_end, l) -> Forall (fun s => (down_to <= st_index s)%nat) ss ->
    forall fs, backups dm ov ss down_to fs = save_walked dm l fs.
Proof. exact backups_write_the_walk. Qed.
Print Assumptions C08_backups_write_the_walk.

(* non-vacuity: one file patch applied to a concrete tree is such a history, with one backup to restore *)
From Coq Require Import String.
Definition c08_nl := String (Ascii.ascii_of_nat 10) EmptyString.
Definition c08_p := b ("--- a/f" ++ c08_nl ++ "+++ b/f" ++ c08_nl ++ "@@ -2 +2 @@" ++ c08_nl ++ "-b" ++ c08_nl ++ "+B" ++ c08_nl)%string.
Definition c08_fs : fsys :=
  {| fs_files := [([b "f"], {| f_data := b ("a" ++ c08_nl ++ "b" ++ c08_nl)%string; f_mode := 420 |})];
     fs_dirs := []; fs_log := []; fs_fault := None; fs_fired := false |}.
Definition c08_empty : astate := {| a_applied := []; a_files := [] |}.
Definition c08_fps : list pfilepatch := match parse_patch c08_p 1 false with Ok (Parsed p) => pp_fps p | _ => [] end.
Example C08_pop_premises_met :
  disk_ok c08_fs /\
  exists fp h st2, c08_fps = [fp] /\ plain_steps c08_fs c08_empty h st2 /\ List.length h = 1%nat.
Proof.
  split.
  { intros k f H. unfold fs_read in H. destruct (normalize k) as [|c r]; [discriminate|].
    destruct (existsb _ _); [discriminate|]. cbn [c08_fs fs_files lookup_file] in H.
    destruct (npath_eqb (c :: r) [b "f"]); [injection H as <-; vm_compute; reflexivity|].
    destruct (is_dir _ _); discriminate. }
  destruct (parse_patch c08_p 1 false) as [[p|]| |] eqn:Ep; try (vm_compute in Ep; discriminate Ep).
  pose proof (parse_patch_good _ _ _ _ Ep) as Hgood.
  assert (Hf : c08_fps = pp_fps p) by (unfold c08_fps; rewrite Ep; reflexivity).
  destruct (pp_fps p) as [|fp [|fp2 r]] eqn:Efps; try (exfalso; vm_compute in Ep; injection Ep as <-; vm_compute in Efps; discriminate Efps).
  inversion Hgood as [|? ? [Hg _] _]; subst.
  assert (Hren : pf_rename fp = false).
  { vm_compute in Ep. injection Ep as <-. vm_compute in Efps. injection Efps as <-. reflexivity. }
  destruct (apply_one_file_patch c08_fs c08_empty 0 (b "p") false 0 fp) as [[ok st1]| |] eqn:Ea;
    try (exfalso; vm_compute in Ep; injection Ep as <-; vm_compute in Efps; injection Efps as <-; vm_compute in Ea; discriminate Ea).
  exists fp. eexists. exists st1. split; [exact Hf|]. split.
  - pose proof (ps_cons c08_fs c08_empty st1 st1 0%nat (b "p") false 0%nat fp ok [] Ea Hg Hren) as Hc.
    cbn [app] in Hc. apply Hc; [intros k m Hk; discriminate Hk|constructor].
  - vm_compute in Ep. injection Ep as <-. vm_compute in Efps. injection Efps as <-. vm_compute in Ea. injection Ea as _ <-.
    vm_compute. reflexivity.
Qed.
