(* Extraction of the executable models to OCaml for the correspondence checks.
   Only ExtrOcamlBasic is used: bool, option, unit, list, prod, sumbool, sumor map to the OCaml
   types of the same name and andb/orb are inlined; nat, positive, N, Z stay the extracted
   inductive types.  No Extract Constant / Extract Inductive of our own. *)
Require Extraction.
Require Import ExtrOcamlBasic.
From Coq Require Import ZArith NArith List.
From RQ Require Import Base Apply ApplySpec Distributor Parser Writer Quilt DiffCheck DiffGen ModelChecks HardLinks.

Definition dist_N := Distributor.distribute N N.eqb.
Definition classes_ok_N := Distributor.classes_ok N N.eqb.
Definition apply_N := Apply.apply N N.eqb.
Definition rollback_N := Apply.rollback N N.eqb.
Definition placements_ok_N := ApplySpec.placements_ok N N.eqb.
Definition rewrite_ok_N := ApplySpec.rewrite_ok N N.eqb.
Definition apply_B := Apply.apply bytes bytes_eqb.
Definition hunks_of_B := DiffGen.hunks_of bytes.

Extraction "model.ml" dist_N classes_ok_N apply_N rollback_N placements_ok_N rewrite_ok_N
  parse_patch write_patch write_rej strip_path is_unsafe components
  cmd_push resolve_range overlay_wf normalize read_series split_lines concat_lines c01_check apply_B to_fpatch hunks_of_B
  irun nrun ilookup.
