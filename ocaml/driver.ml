(* Model side of the correspondence checks: reads the same case lines as harness/ (one case per
   line on stdin), evaluates the extracted Coq model (gen/model.ml) and prints one canonical
   result line per case.  Everything that decides a result is extracted code; this file only
   converts between text and the extracted data types. *)
open Model
type string = Stdlib.String.t   (* the extracted Coq string type must not shadow OCaml's *)

(* ---------- conversions ---------- *)
let rec nat_of_int i = if i <= 0 then O else S (nat_of_int (i - 1))
let rec int_of_nat = function O -> 0 | S n -> 1 + int_of_nat n

let rec pos_of_int i =
  if i <= 1 then XH else if i land 1 = 0 then XO (pos_of_int (i lsr 1)) else XI (pos_of_int (i lsr 1))
let rec int_of_pos = function XH -> 1 | XO p -> 2 * int_of_pos p | XI p -> 2 * int_of_pos p + 1
let n_of_int i = if i = 0 then N0 else Npos (pos_of_int i)
let int_of_n = function N0 -> 0 | Npos p -> int_of_pos p
let z_of_int i = if i = 0 then Z0 else if i > 0 then Zpos (pos_of_int i) else Zneg (pos_of_int (-i))
let int_of_z = function Z0 -> 0 | Zpos p -> int_of_pos p | Zneg p -> - (int_of_pos p)

(* decimal strings beyond the range of OCaml int (for numeric fields up to and over 2^64) *)
let pos_of_dec s : positive option =
  (* binary conversion by repeated division of the decimal string by 2 *)
  let digits = Array.init (String.length s) (fun i -> Char.code s.[i] - 48) in
  let is_zero () = Array.for_all (fun d -> d = 0) digits in
  let div2 () = let carry = ref 0 in
    Array.iteri (fun i d -> let v = !carry * 10 + d in digits.(i) <- v / 2; carry := v mod 2) digits; !carry in
  let bits = ref [] in
  while not (is_zero ()) do bits := div2 () :: !bits done;
  (* bits: most significant first *)
  match !bits with
  | [] -> None
  | _ :: rest -> Some (List.fold_left (fun p b -> if b = 1 then XI p else XO p) XH rest)

(* ---------- tokens ---------- *)
let toks = ref []
let word () = match !toks with [] -> failwith "token" | w :: r -> toks := r; w
let int () = int_of_string (word ())

(* numbers of any size (line numbers go up to isize::MAX, OCaml's int stops at 2^62): decimal string -> Z by
   repeated halving of the digit list *)
let z_of_string (s : string) : z =
  let neg = String.length s > 0 && s.[0] = '-' in
  let s = if neg then String.sub s 1 (String.length s - 1) else s in
  let digits = ref (List.init (String.length s) (fun i -> Char.code s.[i] - 48)) in
  let is_zero ds = List.for_all (fun d -> d = 0) ds in
  let halve ds =                     (* (quotient digits, remainder) *)
    let rem = ref 0 in
    let q = List.map (fun d -> let v = !rem * 10 + d in rem := v mod 2; v / 2) ds in
    (q, !rem) in
  let bits = ref [] in               (* least significant first *)
  while not (is_zero !digits) do
    let (q, r) = halve !digits in
    bits := r :: !bits; digits := q
  done;
  (* !bits is most significant first now *)
  match !bits with
  | [] -> Z0
  | _ :: rest ->
      let p = List.fold_left (fun acc b -> if b = 1 then XI acc else XO acc) XH rest in
      if neg then Zneg p else Zpos p
let zint () = z_of_string (word ())
let hexval c = match c with '0'..'9' -> Char.code c - 48 | 'a'..'f' -> Char.code c - 87 | _ -> failwith "hex"
let hexbytes () : int list =
  let w = word () in
  if w = "-" then [] else
  List.init (String.length w / 2) (fun i -> hexval w.[2*i] * 16 + hexval w.[2*i+1])
let hex_of (l : int list) =
  if l = [] then "-" else String.concat "" (List.map (Printf.sprintf "%02x") l)
let rec times n f = if n <= 0 then [] else let x = f () in x :: times (n - 1) f

(* ---------- dist ---------- *)
let run_dist () =
  let threads = int () in
  let n = int () in
  let ops = times n (fun () -> let a = int () in let b = int () in
                                (n_of_int a, if b < 0 then None else Some (n_of_int b))) in
  match dist_N (nat_of_int threads) ops with
  | Ok m ->
      let m = List.map (fun (a, t) -> (int_of_n a, int_of_nat t)) m in
      let m = List.sort compare m in
      "OK " ^ String.concat " " (List.map (fun (a, t) -> Printf.sprintf "%d:%d" a t) m)
  | Panic -> "PANIC"
  | Diverge -> "DIVERGE"

(* distcheck <threads> <n> (<a> <b|-1>)* <k> (<name> <thread>)*  : the proved oracle on a given map *)
let run_distcheck () =
  let threads = int () in
  let n = int () in
  let ops = times n (fun () -> let a = int () in let b = int () in
                                (n_of_int a, if b < 0 then None else Some (n_of_int b))) in
  let k = int () in
  let m = times k (fun () -> let a = int () in let t = int () in (n_of_int a, nat_of_int t)) in
  if classes_ok_N ops (nat_of_int threads) m then "TRUE" else "FALSE"

(* ---------- l1 ---------- *)
(* decimal rendering of arbitrarily large positives: digits (least significant first) doubled per bit *)
let string_of_pos p =
  let rec bits = function XH -> [1] | XO q -> 0 :: bits q | XI q -> 1 :: bits q in
  let msb_first = List.rev (bits p) in
  let step digits bit =
    let carry = ref bit in
    let ds = List.map (fun d -> let v = d * 2 + !carry in carry := v / 10; v mod 10) digits in
    if !carry > 0 then ds @ [!carry] else ds in
  let digits = List.fold_left step [0] msb_first in
  String.concat "" (List.rev_map string_of_int digits)
let string_of_z = function Z0 -> "0" | Zpos p -> string_of_pos p | Zneg p -> "-" ^ string_of_pos p

let perm_of v = if v < 0 then None else Some (n_of_int v)
let show_perm = function None -> "-" | Some p -> string_of_int (int_of_n p)
let show_file (mf : n mfile) =
  Printf.sprintf "d%d p%s [%s]" (if mf.deleted then 1 else 0) (show_perm mf.perm)
    (String.concat "," (List.map (fun l -> string_of_int (int_of_n l)) mf.content))
let reason_id = function
  | NoMatchingLines -> 0 | FileDoesNotExist -> 1 | CreatingFileThatExists -> 2
  | DeletingFileThatDoesNotMatch -> 3 | MisorderedHunks -> 4
let show_report (r : freport) =
  let hs = List.map (function
    | Applied (l, rl, off, diff, f) ->
        Printf.sprintf "A %s %s %s %s %d" (string_of_z l) (string_of_z rl) (string_of_z off) (string_of_z diff) (int_of_nat f)
    | Failed r -> Printf.sprintf "F%d" (reason_id r)
    | Skipped -> "S") r.r_hunks in
  Printf.sprintf "ok%d %d %d (%s)" (if r.r_failed then 0 else 1)
    (match r.r_dir with Fwd -> 0 | Rev -> 1) (int_of_nat r.r_fuzz) (String.concat ";" hs)

let read_hunk () : n hunk =
  let rt = zint () in let at = zint () in let pre = int () in let suf = int () in
  let nrem = int () in let rem = times nrem (fun () -> n_of_int (int ())) in
  let nadd = int () in let add = times nadd (fun () -> n_of_int (int ())) in
  { h_rem = rem; h_rline = rt; h_add = add; h_aline = at;
    h_pre = nat_of_int pre; h_suf = nat_of_int suf }

let read_filepatch () =
  let kind = (match int () with 0 -> Modify | 1 -> Create | _ -> Delete) in
  let dir = if int () = 0 then Fwd else Rev in
  let fuzz = int () in
  let has_old = int () <> 0 in let has_new = int () <> 0 in
  let operm = perm_of (int ()) in let nperm = perm_of (int ()) in
  let nh = int () in
  let hunks = times nh read_hunk in
  ({ fp_kind = kind; fp_has_old = has_old; fp_has_new = has_new; fp_operm = operm; fp_nperm = nperm;
     fp_hunks = hunks }, dir, nat_of_int fuzz)

exception Stop of string

let run_l1 () =
  let existed = int () <> 0 in let deleted = int () <> 0 in let p = perm_of (int ()) in
  let nfile = int () in
  let content = times nfile (fun () -> n_of_int (int ())) in
  let mf = ref { content; existed; deleted; perm = p } in
  let np = int () in
  let patches = times np read_filepatch in
  let buf = Buffer.create 256 in
  Buffer.add_string buf "OK";
  try
    let reports = List.mapi (fun i (fp, dir, fuzz) ->
      match apply_N fp !mf dir fuzz with
      | Ok (mf', rep) ->
          mf := mf';
          Buffer.add_string buf (Printf.sprintf " | A%d %s %s" i (show_file mf') (show_report rep));
          rep
      | Panic -> raise (Stop "PANIC")
      | Diverge -> raise (Stop "DIVERGE")) patches in
    let indexed = List.mapi (fun i (p, r) -> (i, p, r)) (List.combine patches reports) in
    List.iter (fun (i, (fp, _, _), rep) ->
      match rollback_N fp !mf rep.r_dir rep with
      | Ok mf' -> mf := mf'; Buffer.add_string buf (Printf.sprintf " | R%d %s" i (show_file mf'))
      | Panic -> raise (Stop "PANIC")
      | Diverge -> raise (Stop "DIVERGE")) (List.rev indexed);
    Buffer.contents buf
  with Stop s -> s

(* reports as tokens: A l rl off diff f | F k | S *)
let read_report () =
  match word () with
  | "A" -> let l = zint () in let rl = zint () in let off = zint () in let diff = zint () in let f = int () in
           Applied (l, rl, off, diff, nat_of_int f)
  | "F" -> Failed (match int () with 0 -> NoMatchingLines | 1 -> FileDoesNotExist | 2 -> CreatingFileThatExists
                                   | 3 -> DeletingFileThatDoesNotMatch | _ -> MisorderedHunks)
  | _ -> Skipped

(* c02 <dir> <F> <nfile> <line>* <nh> <hunk>* <report>*   : C02 oracle on the implementation's reports
   c03 <dir> <nfile> <line>* <nh> <hunk>* <report>* <nfile'> <line>*   : C03 oracle *)
let run_c02 () =
  let dir = if int () = 0 then Fwd else Rev in
  let f = int () in
  let nfile = int () in let c = times nfile (fun () -> n_of_int (int ())) in
  let nh = int () in let hs = times nh read_hunk in
  let rs = times nh read_report in
  if placements_ok_N hs dir (nat_of_int f) c Z0 (Zneg XH) rs then "TRUE" else "FALSE"

let run_c03 () =
  let dir = if int () = 0 then Fwd else Rev in
  let nfile = int () in let c = times nfile (fun () -> n_of_int (int ())) in
  let nh = int () in let hs = times nh read_hunk in
  let rs = times nh read_report in
  let nfile' = int () in let c' = times nfile' (fun () -> n_of_int (int ())) in
  if rewrite_ok_N hs dir c c' rs then "TRUE" else "FALSE"

(* ---------- l2: parser / writer ---------- *)
let bytes_of_ints l = List.map n_of_int l
let ints_of_bytes l = List.map int_of_n l
let hexb (l : n list) = hex_of (ints_of_bytes l)
let opt_hex = function None -> "/" | Some bs -> hexb bs
let perm_s = function None -> "-" | Some p -> string_of_int (int_of_n p)
(* target lines can exceed the range of OCaml int only beyond 2^62: print via string *)

let dump_filepatch (fp : pfilepatch) =
  let kind = (match fp.pf_kind with Modify -> "M" | Create -> "C" | Delete -> "D") in
  let hs = List.map (fun ph ->
    let h = ph.ph_hunk in
    Printf.sprintf " <%s %s %d %d fn=%s R[%s] A[%s]>" (string_of_z h.h_rline) (string_of_z h.h_aline)
      (int_of_nat h.h_pre) (int_of_nat h.h_suf) (hexb ph.ph_func)
      (String.concat "," (List.map hexb h.h_rem)) (String.concat "," (List.map hexb h.h_add))) fp.pf_hunks in
  Printf.sprintf "{%s old=%s new=%s ren%d op%s np%s oh=%s nh=%s hunks=%d%s}" kind
    (opt_hex fp.pf_old) (opt_hex fp.pf_new) (if fp.pf_rename then 1 else 0) (perm_s fp.pf_operm) (perm_s fp.pf_nperm)
    (opt_hex fp.pf_ohash) (opt_hex fp.pf_nhash) (List.length fp.pf_hunks) (String.concat "" hs)

let dump_patch (p : ppatch) =
  Printf.sprintf "header=%s n=%d%s" (hexb p.pp_header) (List.length p.pp_fps)
    (String.concat "" (List.map (fun fp -> " " ^ dump_filepatch fp) p.pp_fps))

let err_name = function
  | NoMatch -> "NoMatch" | UnsupportedMetadata -> "UnsupportedMetadata"
  | MissingFilenameForHunk -> "MissingFilenameForHunk" | UnexpectedEndOfLine -> "UnexpectedEndOfLine"
  | UnexpectedEndOfFile -> "UnexpectedEndOfFile" | BadHunkHeader -> "BadHunkHeader"
  | BadLineInHunk -> "BadLineInHunk" | NumberTooBig -> "NumberTooBig" | BadNumber -> "BadNumber"
  | BadMode -> "BadMode" | BadSequence -> "BadSequence" | BadHash -> "BadHash" | UnsafeFilename -> "UnsafeFilename" | EmptyFilename -> "EmptyFilename"

let run_parse () =
  let strip = int () in let wh = int () <> 0 in
  let bs = bytes_of_ints (hexbytes ()) in
  match parse_patch bs (nat_of_int strip) wh with
  | Ok (Parsed p) -> "OK " ^ dump_patch p
  | Ok (ParseErr e) -> "ERR " ^ err_name e
  | Panic -> "PANIC" | Diverge -> "DIVERGE"

let run_rt () =
  let bs = bytes_of_ints (hexbytes ()) in
  match parse_patch bs O true with
  | Ok (ParseErr e) -> "SKIP ERR " ^ err_name e
  | Panic -> "PANIC" | Diverge -> "DIVERGE"
  | Ok (Parsed p) ->
    (match write_patch p with
     | Panic -> "PANIC" | Diverge -> "DIVERGE"
     | Ok w1 ->
       (match parse_patch w1 O true with
        | Ok (ParseErr e) -> Printf.sprintf "OK p1=%s w1=%s REPARSE-ERR %s" (dump_patch p) (hexb w1) (err_name e)
        | Panic -> "PANIC" | Diverge -> "DIVERGE"
        | Ok (Parsed p2) ->
          (match write_patch p2 with
           | Ok w2 -> Printf.sprintf "OK p1=%s w1=%s p2=%s w2=%s" (dump_patch p) (hexb w1) (dump_patch p2) (hexb w2)
           | Panic -> "PANIC" | Diverge -> "DIVERGE")))

(* ---------- l3: the push command on an abstract file system ----------
   push <fuzz> <backup A|O|N> <count -1|n> <dry 0/1> <default mode> <goal: A | C n | U hexname>
        <nfiles> {hexpath hexdata mode}* <ndirs> {hexpath}* <npatches> {hexname hexdata}*        *)
let rerr_name = function
  | ESeries -> "series" | EPatchLoad -> "patchload" | ELoadFile -> "loadfile" | ESave -> "save"
  | EMismatch -> "mismatch" | EGoal -> "goal" | EOutOfModel -> "outofmodel"

let show_fs (fs : fsys) =
  let comp c = hexb c in
  let path p = if p = [] then "-" else String.concat "/" (List.map comp p) in
  let files = List.map (fun (p, f) -> (path p, Printf.sprintf "F %s %d %s" (path p) (int_of_n f.f_mode) (hexb f.f_data))) fs.fs_files in
  let dirs = List.map (fun p -> (path p, Printf.sprintf "D %s" (path p))) fs.fs_dirs in
  let all = List.sort_uniq compare (files @ dirs) in
  String.concat " | " (List.map snd all)

let run_push () =
  let fuzz = int () in
  let backup = (match word () with "A" -> Always | "O" -> OnFail | _ -> Never) in
  let count = (let c = int () in if c < 0 then BAll else BLast (nat_of_int c)) in
  let dryw = int () in
  let dry = dryw land 1 <> 0 in
  let preload = dryw land 2 <> 0 in
  let dm = int () in
  let goal = (match word () with
              | "A" -> GAll
              | "C" -> GCount (nat_of_int (int ()))
              | _ -> GUpTo (bytes_of_ints (hexbytes ()))) in
  let nfiles = int () in
  let files = times nfiles (fun () ->
    let p = bytes_of_ints (hexbytes ()) in let d = bytes_of_ints (hexbytes ()) in let m = int () in
    (normalize p, { f_data = d; f_mode = n_of_int m })) in
  let ndirs = int () in
  let dirs = times ndirs (fun () -> normalize (bytes_of_ints (hexbytes ()))) in
  let np = int () in
  let db = times np (fun () -> let n = bytes_of_ints (hexbytes ()) in let d = bytes_of_ints (hexbytes ()) in (n, d)) in
  let cfg = { c_fuzz = nat_of_int fuzz; c_backup = backup; c_backup_count = count; c_dry_run = dry;
              c_default_mode = n_of_int dm; c_preload = preload } in
  let fault = (let v = dryw lsr 2 in if v = 0 then None else Some (nat_of_int (v - 1))) in
  let fs = { fs_files = files; fs_dirs = dirs; fs_log = []; fs_fault = fault; fs_fired = false } in
  let (fs', r) = cmd_push cfg db goal fs in
  let ops = String.concat "," (List.map (fun op ->
      let path p = if p = [] then "-" else String.concat "/" (List.map hexb p) in
      match op with
      | OpUnlink p -> "U:" ^ path p
      | OpCreate (p, ex) -> (if ex then "T:" else "C:") ^ path p
      | OpMkdir p -> "M:" ^ path p
      | OpRmdir p -> "R:" ^ path p) fs'.fs_log) in
  (* HardLinks.v run on the log: the files of the start tree get the inode numbers 0, 1, ...; after irun a name
     is bound to its old number (S), to a fresh one (N) or to none (G); nrun says whether the log is truthful *)
  let n_of k = n_of_int k in
  let names0 = List.mapi (fun k (p, _) -> (p, n_of k)) files in
  let dummy = { i_data = []; i_mode = n_of 0 } in
  let s0 = { i_names = names0; i_node = (fun _ -> dummy); i_next = n_of (List.length files) } in
  let s1 = irun s0 fs'.fs_log (fun _ -> dummy) in
  let path0 p = if p = [] then "-" else String.concat "/" (List.map hexb p) in
  let inodes = String.concat "," (List.map (fun (p, k) ->
      path0 p ^ ":" ^ (match ilookup p s1.i_names with
                       | None -> "G"
                       | Some j -> if j = k then "S" else "N")) names0) in
  let truthful = (match nrun (List.map fst files) fs'.fs_log with Some _ -> "TRUTHFUL" | None -> "UNTRUTHFUL") in
  let trace = " || OPS " ^ ops ^ (if fs'.fs_fired then " || FIRED" else "") ^ " || INODES " ^ inodes ^ " || " ^ truthful in
  match r with
  | ROk ok -> Printf.sprintf "EXIT %d | %s%s" (if ok then 0 else 1) (show_fs fs') trace
  | RErr e -> Printf.sprintf "EXIT 1 ERR %s | %s%s" (rerr_name e) (show_fs fs') trace
  | RPanic -> "PANIC | " ^ show_fs fs' ^ trace

(* wf <same tokens as push> : the first prefix length of the requested range after which the overlay holds a file with
   a line that lacks its newline before the end (ModelChecks.overlay_wf) - "NWF k" - or "WF".  Classifies inputs of
   the known finding no-newline-midfile; nothing is decided by it. *)
let run_wf () =
  let fuzz = int () in
  let backup = (match word () with "A" -> Always | "O" -> OnFail | _ -> Never) in
  let count = (let c = int () in if c < 0 then BAll else BLast (nat_of_int c)) in
  let _dryw = int () in
  let dm = int () in
  let goal = (match word () with
              | "A" -> GAll
              | "C" -> GCount (nat_of_int (int ()))
              | _ -> GUpTo (bytes_of_ints (hexbytes ()))) in
  let nfiles = int () in
  let files = times nfiles (fun () ->
    let p = bytes_of_ints (hexbytes ()) in let d = bytes_of_ints (hexbytes ()) in let m = int () in
    (normalize p, { f_data = d; f_mode = n_of_int m })) in
  let ndirs = int () in
  let dirs = times ndirs (fun () -> normalize (bytes_of_ints (hexbytes ()))) in
  let np = int () in
  let db = times np (fun () -> let n = bytes_of_ints (hexbytes ()) in let d = bytes_of_ints (hexbytes ()) in (n, d)) in
  let cfg = { c_fuzz = nat_of_int fuzz; c_backup = backup; c_backup_count = count; c_dry_run = false;
              c_default_mode = n_of_int dm; c_preload = false } in
  let fs = { fs_files = files; fs_dirs = dirs; fs_log = []; fs_fault = None; fs_fired = false } in
  match resolve_range fs goal with
  | ROk ((series, first), last) ->
      let rec drop n l = if n <= 0 then l else (match l with [] -> [] | _ :: r -> drop (n - 1) r) in
      let rec take n l = if n <= 0 then [] else (match l with [] -> [] | x :: r -> x :: take (n - 1) r) in
      let f = int_of_nat first and l = int_of_nat last in
      let range = take (l - f) (drop f series) in
      let rec go k = if k > List.length range then "WF"
                     else if overlay_wf cfg db first (take k range) fs then go (k + 1)
                     else Printf.sprintf "NWF %d" k in
      go 1
  | _ -> "WF"

(* c01 <dir> <strip> <hexA|-> <hexB|-> <hexpatch> : is the patch text an exact diff from A to B (DiffCheck.c01_check) *)
let run_c01 () =
  let dir = if int () = 0 then Fwd else Rev in
  let strip = int () in
  let optfile () = (match !toks with
                    | "-" :: r -> toks := r; None
                    | "=" :: r -> toks := r; Some []
                    | _ -> Some (bytes_of_ints (hexbytes ()))) in
  let a = optfile () in
  let bb = optfile () in
  let patch = bytes_of_ints (hexbytes ()) in
  match c01_check patch (nat_of_int strip) dir a bb with
  | C01_NotOnePatch -> "NOT-ONE-PATCH"
  | C01_Result (k, e, s) ->
      Printf.sprintf "KIND %s EXACT %d SPEC %d" (match k with Modify -> "M" | Create -> "C" | Delete -> "D")
        (if e then 1 else 0) (if s then 1 else 0)

(* applyb <strip> <dir> <fuzz> <hexfile|=|-> <hexpatch> : parse, apply the only file patch to the file given as bytes *)
let run_applyb () =
  let strip = int () in
  let dir = if int () = 0 then Fwd else Rev in
  let fuzz = int () in
  let file = (match !toks with
              | "-" :: r -> toks := r; None
              | "=" :: r -> toks := r; Some []
              | _ -> Some (bytes_of_ints (hexbytes ()))) in
  let patch = bytes_of_ints (hexbytes ()) in
  match parse_patch patch (nat_of_int strip) false with
  | Ok (Parsed { pp_header = _; pp_fps = [fp] }) ->
      let mf = (match file with
                | Some bs -> { content = split_lines bs; existed = true; deleted = false; perm = None }
                | None -> { content = []; existed = false; deleted = true; perm = None }) in
      (match apply_B (to_fpatch fp) mf dir (nat_of_int fuzz) with
       | Ok (mf', rep) -> Printf.sprintf "OK d%d %s %s" (if mf'.deleted then 1 else 0) (hexb (concat_lines mf'.content)) (show_report rep)
       | Panic -> "PANIC" | Diverge -> "DIVERGE")
  | Ok (Parsed _) -> "NOT-ONE-PATCH"
  | Ok (ParseErr e) -> "ERR " ^ err_name e
  | Panic -> "PANIC" | Diverge -> "DIVERGE"

(* gen <c> <hexk0|-> <n> {<hexrem|-> <hexadd|-> <hexkeep|->}*  : the specification-level diff generator
   (DiffGen.hunks_of) on a script; blobs are split into lines *)
let run_gen () =
  let c = int () in
  let blob () = split_lines (bytes_of_ints (hexbytes ())) in
  let k0 = blob () in
  let n = int () in
  let steps = times n (fun () -> let r = blob () in let a = blob () in let k = blob () in ({ c_rem = r; c_add = a }, k)) in
  let hs = hunks_of_B (nat_of_int c) k0 steps in
  String.concat "" (List.map (fun h ->
    Printf.sprintf " <%s %s %d %d R[%s] A[%s]>" (string_of_z h.h_rline) (string_of_z h.h_aline)
      (int_of_nat h.h_pre) (int_of_nat h.h_suf)
      (String.concat "," (List.map hexb h.h_rem)) (String.concat "," (List.map hexb h.h_add))) hs)

(* ---------- main loop ---------- *)
let run_case line =
  toks := List.filter (fun s -> s <> "") (String.split_on_char ' ' line);
  match word () with
  | "dist" -> run_dist ()
  | "distcheck" -> run_distcheck ()
  | "l1" -> run_l1 ()
  | "c02" -> run_c02 ()
  | "c03" -> run_c03 ()
  | "parse" -> run_parse ()
  | "rt" -> run_rt ()
  | "push" -> run_push ()
  | "wf" -> run_wf ()
  | "c01" -> run_c01 ()
  | "applyb" -> run_applyb ()
  | "gen" -> run_gen ()
  | k -> "UNKNOWN " ^ k

let () =
  try
    while true do
      let line = input_line stdin in
      if String.trim line <> "" then print_endline (run_case line)
    done
  with End_of_file -> ()
