#!/usr/bin/env python3
"""run_seeded.py [name ...] [--props C02,C03]

For each seeded change under /verif/seeded/<name>/: apply patch.diff to /repo (git apply), run the
quick check of the property it breaks (or the given properties), undo it (git checkout -- .), and
record which checks raised a VIOLATION.  Results go to seeded/RESULTS.json.  /repo is always restored.
A change whose meta.json has a "retired" key lost its confirmation through a later fix in /repo (its own demo
passes with it): it is still run and what the check says is recorded, but it no longer counts as detected/missed.
"""
import json
import os
import subprocess
import sys
import time

VERIF = os.path.dirname(os.path.dirname(os.path.abspath(__file__)))
REPO = "/repo"


def main():
    args = [a for a in sys.argv[1:] if not a.startswith("--")]
    props = None
    for a in sys.argv[1:]:
        if a.startswith("--props"):
            props = a.split("=", 1)[1].split(",")
    names = args or sorted(d for d in os.listdir(os.path.join(VERIF, "seeded")) if os.path.isdir(os.path.join(VERIF, "seeded", d)))
    res_path = os.path.join(VERIF, "seeded", "RESULTS.json")
    try:
        results = json.load(open(res_path))
    except Exception:
        results = {}
    manifest = json.load(open(os.path.join(VERIF, "MANIFEST.json")))
    claimed = {c["property_id"] for c in manifest["checks"]}
    st = subprocess.run(["git", "-C", REPO, "status", "--porcelain", "--untracked-files=no"], stdout=subprocess.PIPE).stdout.decode()
    if [l for l in st.splitlines() if "big.patch" not in l]:
        print("refusing: /repo has local modifications:\n" + st)
        sys.exit(2)
    for name in names:
        d = os.path.join(VERIF, "seeded", name)
        meta = json.load(open(os.path.join(d, "meta.json")))
        plist = props or [meta["property"]]
        plist = [p for p in plist if p in claimed]
        if not plist:
            print("%s: no claimed check for %s yet" % (name, meta["property"]))
            continue
        rc = subprocess.run(["git", "-C", REPO, "apply", os.path.join(d, "patch.diff")]).returncode
        if rc != 0:
            print("%s: patch does not apply" % name)
            results.setdefault(name, {})["apply"] = "failed"
            continue
        try:
            for p in plist:
                t0 = time.time()
                env = dict(os.environ, VERIF_EVIDENCE_DIR=os.path.join(VERIF, ".cache", "evidence-seeded"))
                r = subprocess.run(["python3", os.path.join(VERIF, "tools", "check.py"), p, "--tier", "quick"],
                                   cwd=VERIF, stdout=subprocess.PIPE, stderr=subprocess.DEVNULL, env=env)
                out = r.stdout.decode()
                viol = [l for l in out.splitlines() if l.startswith("VIOLATION")]
                kind = ""
                if viol:
                    rp = viol[0].split("replay=")[1].split()[0]
                    try:
                        kind = json.load(open(rp)).get("kind", "")
                    except Exception:
                        pass
                results.setdefault(name, {})[p] = {"detected": bool(viol), "exit": r.returncode,
                                                   "line": viol[0] if viol else out.strip().splitlines()[-1:],
                                                   "kind": kind, "wall_s": round(time.time() - t0)}
                if meta.get("retired"):
                    # a later fix in /repo made the demo of this change pass: no longer a confirmed violation of its property
                    results[name][p]["retired"] = meta["retired"]
                    print("%s / %s: retired (its demo no longer fails), check says: %s (%ds)" % (name, p, "VIOLATION " + kind if viol else "quiet", time.time() - t0))
                    continue
                print("%s / %s: %s %s (%ds)" % (name, p, "DETECTED" if viol else "missed", kind, time.time() - t0))
        finally:
            subprocess.run(["git", "-C", REPO, "checkout", "--", "."])
    json.dump(results, open(res_path, "w"), indent=1, sort_keys=True)
    subprocess.run("rm -rf %s/replays" % VERIF, shell=True)


if __name__ == "__main__":
    main()
