"""Common machinery of the rapidquilt verification checks (see DESIGN.md section 1 and 11).

A check run = build (Coq project, extraction, OCaml driver, Rust harness, rapidquilt binary, all
from the current working tree of /repo) + proof obligations of the property (compile
coq/Properties/<id>.v, inspect Print Assumptions) + correspondence/oracle runs + evidence file.
"""
import fcntl
import hashlib
import json
import os
import random
import re
import shutil
import subprocess
import sys
import tempfile
import time

VERIF = os.path.dirname(os.path.dirname(os.path.abspath(__file__)))
REPO = os.environ.get("RQ_REPO", "/repo")
CACHE = os.path.join(VERIF, ".cache")
COQ = os.path.join(VERIF, "coq")
OCAML = os.path.join(VERIF, "ocaml")
HARNESS = os.path.join(VERIF, "harness")
EVIDENCE = os.path.join(VERIF, "evidence")
REPLAYS = os.path.join(VERIF, "replays")
GUARD = "opensuse_rapidquilt_verif"

ENV = dict(os.environ)
ENV.update({"CARGO_NET_OFFLINE": "true", "RUST_BACKTRACE": "0",
            "RUSTFLAGS": "--cfg %s" % GUARD})
ENV.pop("RAPIDQUILT_THREADS", None)

ALLOWED_AXIOMS = set()   # names Print Assumptions may report; empty: everything must be closed

BAD_WORDS = re.compile(r"\b(Admitted|admit|Axiom|Axioms|Parameter|Parameters|Conjecture|Conjectures|"
                       r"Unset Guard Checking|Unset Positivity Checking|Unset Universe Checking|"
                       r"bypass_check|Admit Obligations|type-in-type|impredicative-set)\b")


def log(*a):
    print(*a, file=sys.stderr, flush=True)


def sh(cmd, cwd=None, timeout=1800, env=None, inp=None, check=False):
    p = subprocess.run(cmd, cwd=cwd, env=env or ENV, input=inp, stdout=subprocess.PIPE,
                       stderr=subprocess.STDOUT, timeout=timeout, shell=isinstance(cmd, str))
    out = p.stdout.decode("utf-8", "replace") if isinstance(p.stdout, bytes) else p.stdout
    if check and p.returncode != 0:
        raise RuntimeError("command failed (%d): %s\n%s" % (p.returncode, cmd, out[-4000:]))
    return p.returncode, out


class Lock:
    def __enter__(self):
        os.makedirs(CACHE, exist_ok=True)
        self.f = open(os.path.join(CACHE, "lock"), "w")
        fcntl.flock(self.f, fcntl.LOCK_EX)
        return self

    def __exit__(self, *a):
        fcntl.flock(self.f, fcntl.LOCK_UN)
        self.f.close()


def file_hash(paths):
    h = hashlib.sha256()
    for p in sorted(paths):
        h.update(p.encode())
        try:
            with open(p, "rb") as f:
                h.update(f.read())
        except OSError:
            h.update(b"<missing>")
    return h.hexdigest()


def stamp_ok(name, digest):
    p = os.path.join(CACHE, "stamp-" + name)
    try:
        return open(p).read() == digest
    except OSError:
        return False


def stamp_set(name, digest):
    with open(os.path.join(CACHE, "stamp-" + name), "w") as f:
        f.write(digest)


# ---------------------------------------------------------------------------------------------
# builds

def theory_files():
    d = os.path.join(COQ, "theories")
    return [os.path.join(d, f) for f in sorted(os.listdir(d)) if f.endswith(".v")]


def build_coq():
    """Regenerate Params.v from /repo, then a full .vo build of coq/theories (never -vos).
    Returns (ok, log, params_info)."""
    sys.path.insert(0, os.path.join(VERIF, "tools"))
    import gen_params
    info = gen_params.generate(REPO, os.path.join(COQ, "theories", "Params.v"))
    rc, out = sh("ulimit -v 12000000; coq_makefile -f _CoqProject -o Makefile >/dev/null 2>&1; "
                 "timeout 3000 make -k -j16 > .make.log 2>&1; rc=$?; tail -60 .make.log; exit $rc",
                 cwd=COQ, timeout=3200)
    ok = rc == 0
    for v in theory_files():
        vo = v[:-2] + ".vo"
        if not os.path.exists(vo) or os.path.getmtime(vo) < os.path.getmtime(v):
            ok = False
    return ok, out, info


def build_model():
    """Extract the models (coq/Extract.v, ExtrOcamlBasic only) and build ocaml/driver."""
    srcs = theory_files() + [os.path.join(COQ, "Extract.v"), os.path.join(OCAML, "driver.ml")]
    digest = file_hash(srcs)
    drv = os.path.join(OCAML, "driver")
    if stamp_ok("model", digest) and os.path.exists(drv):
        return True, "cached"
    gen = os.path.join(OCAML, "gen")
    os.makedirs(gen, exist_ok=True)
    rc, out = sh("timeout 600 coqc -Q ../../coq/theories RQ ../../coq/Extract.v 2>&1 | tail -20; "
                 "rm -f ../../coq/Extract.vo ../../coq/Extract.glob ../../coq/.Extract.aux ../../coq/Extract.vos ../../coq/Extract.vok",
                 cwd=gen)
    if not os.path.exists(os.path.join(gen, "model.ml")):
        return False, out
    if os.path.exists(drv):
        os.unlink(drv)
    rc, out2 = sh("ocamlfind ocamlopt -w -a -I gen gen/model.mli gen/model.ml driver.ml -o driver 2>&1 | tail -20",
                  cwd=OCAML)
    if rc != 0 or not os.path.exists(drv):
        return False, out + out2
    stamp_set("model", digest)
    return True, out + out2


def build_harness():
    """cargo build --offline of the harness crate; libpatch and the binary's modules come from
    /repo's current working tree (path dependency + #[path] includes)."""
    shutil.copyfile(os.path.join(REPO, "Cargo.lock"), os.path.join(HARNESS, "Cargo.lock"))
    env = dict(ENV)
    env["CARGO_TARGET_DIR"] = os.path.join(CACHE, "target")
    rc, out = sh("cargo build --offline 2>&1 | tail -40", cwd=HARNESS, env=env, timeout=3000)
    exe = os.path.join(CACHE, "target", "debug", "rq-harness")
    ok = os.path.exists(exe) and "Finished" in out
    return ok, out, exe


def build_binary(release=False, hooked=False):
    """the rapidquilt binary of /repo's working tree; hooked=False: as shipped (guard off);
    hooked=True: with --cfg opensuse_rapidquilt_verif (scheduling points for C06)"""
    env = dict(ENV)
    tdir = "target-hook" if hooked else "target-bin"
    if not hooked:
        env.pop("RUSTFLAGS", None)
    env["CARGO_TARGET_DIR"] = os.path.join(CACHE, tdir)
    rc, out = sh("cargo build --offline %s 2>&1 | tail -40" % ("--release" if release else ""),
                 cwd=REPO, env=env, timeout=3000)
    exe = os.path.join(CACHE, tdir, "release" if release else "debug", "rapidquilt")
    ok = "Finished" in out and os.path.exists(exe)
    return ok, out, exe


# ---------------------------------------------------------------------------------------------
# proof obligations

THM_RE = re.compile(r"^\s*(Theorem|Lemma|Corollary|Example|Fact|Proposition)\s+([A-Za-z0-9_']+)", re.M)


def scan_forbidden():
    """No Admitted/admit/Axiom/Parameter/... anywhere in the development."""
    hits = []
    for root in (os.path.join(COQ, "theories"), os.path.join(COQ, "Properties"), COQ):
        for f in sorted(os.listdir(root)):
            if not f.endswith(".v"):
                continue
            p = os.path.join(root, f)
            txt = open(p).read()
            txt_nc = re.sub(r"\(\*.*?\*\)", "", txt, flags=re.S)
            for m in BAD_WORDS.finditer(txt_nc):
                hits.append("%s: %s" % (os.path.relpath(p, VERIF), m.group(0)))
        if root == COQ:
            break
    return sorted(set(hits))


def coqchk(prop_id):
    """thorough tier: re-check the compiled property file and everything it depends on with the independent
    checker; -o lists the axioms of every loaded library -> (ok, summary)"""
    cmd = "ulimit -v 12000000; timeout 1500 coqchk -o -silent -Q theories RQ -Q Properties RQP RQP.%s" % prop_id
    rc, out = sh(cmd + " 2>&1 | tail -40", cwd=COQ, timeout=1600)
    m = re.search(r"\* Axioms:\s*(.*?)\n\s*\n", out, flags=re.S)
    axioms = m.group(1).strip() if m else "<no output>"
    clean = all(("* %s: <none>" % k) in re.sub(r"\s+", " ", out) for k in (
        "Axioms", "Constants/Inductives relying on type-in-type", "Constants/Inductives relying on unsafe (co)fixpoints",
        "Inductives whose positivity is assumed"))
    return clean, {"cmd": "cd coq && " + cmd, "axioms": axioms, "tail": out[-600:]}


def check_obligations(prop_id):
    """Compile coq/Properties/<id>.v against the freshly built theories. Every Theorem/Example in
    it is an obligation; it is discharged when the file compiles and Print Assumptions reports
    'Closed under the global context' (or only allow-listed axioms) for it."""
    path = os.path.join(COQ, "Properties", prop_id + ".v")
    src = open(path).read()
    names = [m.group(2) for m in THM_RE.finditer(re.sub(r"\(\*.*?\*\)", "", src, flags=re.S))]
    cmd = "ulimit -v 12000000; timeout 900 coqc -Q theories RQ -Q Properties RQP Properties/%s.v" % prop_id
    t0 = time.time()
    rc, out = sh(cmd, cwd=COQ, timeout=1000)
    res = {"file": "coq/Properties/%s.v" % prop_id, "obligations": names, "discharged": [],
           "failed": [], "assumptions": {}, "checker_cmd": "cd coq && " + cmd, "wall_s": round(time.time() - t0, 1),
           "log_tail": out[-1500:]}
    if rc != 0:
        # find the first theorem at or after the error line, everything before it is fine
        m = re.search(r'line (\d+), characters', out)
        errline = int(m.group(1)) if m else 0
        src_lines = src.split("\n")
        for n in names:
            ln = next((i + 1 for i, l in enumerate(src_lines) if re.match(r"\s*(Theorem|Lemma|Corollary|Example|Fact|Proposition)\s+%s\b" % re.escape(n), l)), 0)
            nxt = [i + 1 for i, l in enumerate(src_lines) if i + 1 > ln and THM_RE.match(l)]
            end = nxt[0] if nxt else len(src_lines) + 1
            if errline and end <= errline:
                res["discharged"].append(n)
            else:
                res["failed"].append(n)
        res["error"] = out[-1500:]
        return res
    # Print Assumptions output: blocks "Closed under the global context" or "Axioms:\n name : ..."
    blocks = re.split(r"(?=Closed under the global context|Axioms:)", out)
    verdicts = []
    for b in blocks:
        if b.startswith("Closed under"):
            verdicts.append([])
        elif b.startswith("Axioms:"):
            ax = re.findall(r"^([A-Za-z0-9_.']+)\s*:", b, flags=re.M)
            verdicts.append(ax)
    pa = re.findall(r"Print Assumptions\s+([A-Za-z0-9_']+)", src)
    for i, n in enumerate(pa):
        res["assumptions"][n] = verdicts[i] if i < len(verdicts) else ["<no output>"]
    for n in names:
        ax = res["assumptions"].get(n)
        if ax is None:
            # Examples need no Print Assumptions of their own (they are closed vm_compute facts)
            res["discharged"].append(n)
        elif all(a in ALLOWED_AXIOMS for a in ax):
            res["discharged"].append(n)
        else:
            res["failed"].append(n)
    return res


# ---------------------------------------------------------------------------------------------
# running cases through implementation and model

def run_lines(exe, lines, shards=16, timeout=1800):
    """Feed case lines to an executable (one result line per case), sharded over processes."""
    if not lines:
        return []
    shards = max(1, min(shards, (len(lines) + 199) // 200))
    chunks = [lines[i::shards] for i in range(shards)]
    procs = []
    for ch in chunks:
        p = subprocess.Popen([exe], stdin=subprocess.PIPE, stdout=subprocess.PIPE, stderr=subprocess.DEVNULL, env=ENV)
        procs.append((p, ch))
    outs = []
    import threading
    results = [None] * len(procs)

    def work(i, p, ch):
        o, _ = p.communicate(("\n".join(ch) + "\n").encode(), timeout=timeout)
        results[i] = o.decode("utf-8", "replace").split("\n")

    ths = [threading.Thread(target=work, args=(i, p, ch)) for i, (p, ch) in enumerate(procs)]
    for t in ths:
        t.start()
    for t in ths:
        t.join()
    res = [None] * len(lines)
    for i, (p, ch) in enumerate(procs):
        r = results[i]
        for j in range(len(ch)):
            res[i + j * shards] = r[j] if j < len(r) and r[j] != "" else "<no output>"
    return res


# ---------------------------------------------------------------------------------------------
# known findings / replays / evidence

def known_findings(prop_id):
    p = os.path.join(VERIF, "known_findings.json")
    try:
        data = json.load(open(p))
    except OSError:
        return []
    return [f for f in data.get("findings", [])
            if (f.get("property") == prop_id or prop_id in f.get("also", [])) and f.get("status") == "open"]


def write_replay(prop_id, seed, payload):
    os.makedirs(REPLAYS, exist_ok=True)
    n = 0
    while True:
        p = os.path.join(REPLAYS, "%s-seed%d-%d.json" % (prop_id, seed, n))
        if not os.path.exists(p):
            break
        n += 1
    payload = dict(payload)
    payload["property"] = prop_id
    payload["seed"] = seed
    with open(p, "w") as f:
        json.dump(payload, f, indent=1,
                  default=lambda o: o.decode("latin-1") if isinstance(o, (bytes, bytearray)) else str(o))
    return p


def write_evidence(prop_id, tier, seed, level, coverage, wall_s, violations, assumptions):
    # runs on a deliberately changed tree (tools/run_seeded.py) must not overwrite the evidence of the real one
    evdir = os.environ.get("VERIF_EVIDENCE_DIR") or EVIDENCE
    os.makedirs(evdir, exist_ok=True)
    ev = {"property_id": prop_id, "tier": tier, "seed": seed, "level": level, "coverage": coverage,
          "assumptions": assumptions, "wall_s": round(wall_s, 1), "violations": violations}
    with open(os.path.join(evdir, prop_id + ".json"), "w") as f:
        json.dump(ev, f, indent=1)
    return ev


def shrink(case, fails, candidates, budget=400):
    """Greedy structural shrinking: candidates(case) yields smaller variants; keep any that still fails."""
    improved = True
    steps = 0
    while improved and steps < budget:
        improved = False
        for c in candidates(case):
            steps += 1
            if steps >= budget:
                break
            try:
                if fails(c):
                    case = c
                    improved = True
                    break
            except Exception:
                pass
    return case
