#!/bin/bash
# confirm_seeded.sh <property-id> <name> : re-confirm a seeded change produced by a sub-agent in its
# scratch worktree /tmp/mut-<id> (never in /repo) and store it as /verif/seeded/<name>/.
#   - the change compiles, the 49 existing tests pass with it
#   - demo.sh fails with the change and passes without it
set -u
ID=$1; NAME=$2
PFX=${3:-mut}; WT=/tmp/$PFX-$ID; OUT=/tmp/$PFX-out/$ID
export CARGO_NET_OFFLINE=true RUST_BACKTRACE=0
cd "$WT" || exit 2
git diff > /tmp/confirm-$ID.diff
[ -s /tmp/confirm-$ID.diff ] || { echo "no change in worktree"; exit 2; }
echo "== build+tests with change"
TESTS=$(cargo test --workspace --no-fail-fast --offline 2>&1 | grep 'test result' | awk '{p+=$4; f+=$6} END {print p" passed "f" failed"}')
echo "$TESTS"
echo "== demo with change (must fail)"
timeout 900 bash "$OUT/demo.sh" "$WT" > /tmp/confirm-$ID.with.log 2>&1; WITH=$?
echo "exit=$WITH"
git apply -R /tmp/confirm-$ID.diff   # not `git stash`: the stash is shared by all worktrees
echo "== demo without change (must pass)"
timeout 900 bash "$OUT/demo.sh" "$WT" > /tmp/confirm-$ID.without.log 2>&1; WITHOUT=$?
echo "exit=$WITHOUT"
git apply /tmp/confirm-$ID.diff
if [ "$TESTS" = "49 passed 0 failed" ] && [ $WITH -ne 0 ] && [ $WITHOUT -eq 0 ]; then
  D=/verif/seeded/$NAME; mkdir -p "$D"
  cp /tmp/confirm-$ID.diff "$D/patch.diff"; cp "$OUT/demo.sh" "$D/demo.sh"
  python3 - "$OUT/meta.json" "$D/meta.json" "$ID" "$TESTS" $WITH $WITHOUT <<'EOF'
import json,sys
src,dst,pid,tests,w,wo=sys.argv[1:7]
try: m=json.load(open(src))
except Exception: m={}
m["property"]=pid
m["confirmed"]={"where":"scratch worktree /tmp/mut-%s (git worktree of /repo HEAD)"%pid,
  "cargo_test_with_change":tests,"demo_exit_with_change":int(w),"demo_exit_without_change":int(wo),
  "commands":["cargo test --workspace --no-fail-fast --offline","bash demo.sh <worktree> (with change)","git apply -R patch.diff; bash demo.sh <worktree>; git apply patch.diff"]}
json.dump(m,open(dst,"w"),indent=1)
EOF
  echo "CONFIRMED -> $D"
else
  echo "NOT CONFIRMED"; tail -5 /tmp/confirm-$ID.with.log /tmp/confirm-$ID.without.log; exit 1
fi
