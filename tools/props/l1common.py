"""Shared runner of the L1 properties C02, C03, C04, C20: same generators and the same
model-vs-implementation correspondence, a different proved oracle per property."""
import copy
import os

from props import common, l1gen


def steps(c, out):
    """[(patch, content_before, state_before, state_after, report)] for the apply steps"""
    po = l1gen.parse_output(out)
    if po is None:
        return None
    res = []
    before = {"deleted": c["mf"]["deleted"], "perm": c["mf"]["perm"], "content": c["mf"]["content"]}
    for p, (st, rep) in zip(c["patches"], po["applies"]):
        res.append((p, before, st, rep))
        before = st
    return res, po


def hunks_tokens(p):
    return "%d %s" % (len(p["hunks"]), " ".join(l1gen.encode_hunk(h) for h in p["hunks"]))


def oracle_c02(c, out):
    st = steps(c, out)
    if st is None:
        return "c02 0 0 0 0"          # a panic: FALSE (placements_ok [] [] is TRUE only for no hunks -> force false below)
    lines = []
    for p, before, after, rep in st[0]:
        if p["kind"] != 0 or before["deleted"]:
            continue
        lines.append("c02 %d %d %d %s %s %s" % (p["dir"], p["fuzz"], len(before["content"]),
                                                " ".join(map(str, before["content"])), hunks_tokens(p),
                                                l1gen.report_tokens(rep["hunks"])))
    return lines


def oracle_c03(c, out):
    st = steps(c, out)
    if st is None:
        return None
    lines = []
    for p, before, after, rep in st[0]:
        if p["kind"] != 0 or before["deleted"]:
            continue
        lines.append("c03 %d %d %s %s %s %d %s" % (p["dir"], len(before["content"]), " ".join(map(str, before["content"])),
                                                   hunks_tokens(p), l1gen.report_tokens(rep["hunks"]),
                                                   len(after["content"]), " ".join(map(str, after["content"]))))
    return lines


def panic_is_violation(c, out):
    return not out.startswith("OK")


def describe(c, out):
    st = steps(c, out)
    yield "patches=%d" % len(c["patches"])
    if st is None:
        yield "outcome=" + out.split()[0]
        return
    for p, before, after, rep in st[0]:
        yield "kind=%d" % p["kind"]
        yield "dir=%d" % p["dir"]
        yield "fuzzlimit=%d" % p["fuzz"]
        yield "hunks=%d" % min(len(p["hunks"]), 4)
        for h in rep["hunks"]:
            if h[0] == "A":
                yield "applied"
                if h[5] > 0:
                    yield "applied_with_fuzz"
                if h[3] != 0:
                    yield "applied_with_offset"
            elif h[0] == "F":
                yield "failed_reason_%d" % h[1]


def trivial(c, out):
    st = steps(c, out)
    if st is None:
        return False
    return not any(h[0] == "A" for _, _, _, rep in st[0] for h in rep["hunks"])


def gen_cases(ctx, n_each):
    rng = ctx.rng
    cases = {"diff-derived": [], "shifted-repetitive": [], "random-hunks": [], "create-delete": [], "stacks": [], "cr-lf-twins": []}
    for _ in range(n_each // 2):
        cases["cr-lf-twins"].append(l1gen.cr_twins(rng, l1gen.gen_modify(rng)))
    for _ in range(n_each // 2):
        cases["shifted-repetitive"].append(l1gen.gen_shifted_repetitive(rng))
    for _ in range(n_each * 3):
        cases["diff-derived"].append(l1gen.gen_modify(rng))
    for _ in range(n_each * 2):
        cases["random-hunks"].append(l1gen.gen_random_hunks(rng))
    for _ in range(n_each // 2):
        cases["create-delete"].append(l1gen.gen_create_delete(rng))
    for _ in range(n_each):
        cases["stacks"].append(l1gen.gen_stack(rng))
    return cases


def corpus():
    """minimised past failures, run first"""
    P = l1gen.mk_patch
    F = l1gen.mk_file
    h = lambda rt, at, pre, suf, rem, add: {"rt": rt, "at": at, "pre": pre, "suf": suf, "rem": rem, "add": add}
    return [
        # P3: leading context of hunk 2 reaches into the lines hunk 1 changed
        {"mf": F(list(range(1, 10))), "patches": [P([h(1, 1, 2, 2, [2, 3, 4, 5, 6], [2, 3, 5, 6]),
                                                      h(3, 2, 2, 2, [4, 5, 6, 7, 8], [4, 5, 20, 7, 8])])]},
        # P20: insertion dropped / negative splice index
        {"mf": F([1, 1, 2, 1, 2, 1, 1]), "patches": [P([h(6, 0, 0, 0, [], [2]), h(2, 4, 2, 0, [1, 1], [1, 1, 1, 2])])]},
        # P22: reversed entry rolled back
        {"mf": F([1, 9, 3]), "patches": [P([h(0, 0, 1, 1, [1, 2, 3], [1, 9, 3])], 0, 1)]},
        # P8/P19: creation named on both lines over an absent file / over an existing empty file
        {"mf": F([], False, True, -1), "patches": [P([h(0, 0, 0, 0, [], [5])], 1, 0, 0, True, True)]},
        {"mf": F([], True, False), "patches": [P([h(0, 0, 0, 0, [], [5])], 1, 0, 0, False, True)]},
        # P12: huge stated line numbers
        {"mf": F([1, 2]), "patches": [P([h((1 << 61), 0, 0, 0, [2], [3])])]},
        {"mf": F([1, 2, 1, 2]), "patches": [P([h((1 << 61), 0, 0, 0, [2], [3]), h(3, 3, 0, 0, [2], [4])])]},
        # seeded C11-f: an offset carried to a hunk that states (almost) the largest line number
        {"mf": F([1, 2, 3]), "patches": [P([h(0, 0, 0, 0, [2], [9]), h((1 << 63) - 2, (1 << 63) - 2, 0, 0, [7], [8])])]},
        {"mf": F([1, 2, 3]), "patches": [P([h(0, 0, 0, 0, [3], [9]), h((1 << 63) - 2, (1 << 63) - 1, 0, 0, [], [8])])]},
        # seeded C02-g: a line and its CR-LF twin are different lines
        {"mf": F([1, 2, 3, 4]), "patches": [P([h(1, 1, 1, 1, [2, 1000003, 4], [2, 9, 4])])]},
        {"mf": F([1000001, 1000002, 1000003]), "patches": [P([h(0, 0, 1, 1, [1, 2, 3], [1, 9, 3])])]},
        # seeded C03-a: suffix fuzz and frozen line
        {"mf": F([1, 2, 3, 4, 5, 6, 7, 8]), "patches": [P([h(1, 1, 1, 2, [2, 3, 4, 9], [2, 30, 4, 9]), h(2, 2, 0, 0, [3, 4], [31, 41])], 0, 0, 2)]},
        # seeded C02-a: match only in the last slot, expected line beyond the file
        {"mf": F([1, 2, 3, 4]), "patches": [P([h(9, 9, 1, 1, [2, 3, 4], [2, 5, 4])])]},
    ]


def run(ctx, prop, oracle_line, rule_extra, extra_cases=None):
    thorough = ctx.tier == "thorough"
    n_each = 6000 if thorough else 1000
    if not os.environ.get("RQ_NO_CORPUS"):
        common.differential(ctx, corpus(), l1gen.encode, oracle_line, None, l1gen.shrink_cands, "corpus", trivial, describe)
    if extra_cases:
        for label, cs in extra_cases.items():
            common.differential(ctx, cs, l1gen.encode, oracle_line, None, l1gen.shrink_cands, label, trivial, describe)
    for label, cs in gen_cases(ctx, n_each).items():
        common.differential(ctx, cs, l1gen.encode, oracle_line, None, l1gen.shrink_cands, label, trivial, describe)
    common.finish(ctx, "L1 cases = (file, list of file patches applied in order then undone in reverse): corpus of "
                       "minimised failures; patches derived from real diffs (context 0-3) then perturbed (offsets, wrong "
                       "line numbers, corrupted context, contexts widened over neighbouring hunks); random well-formed "
                       "hunks on files over {1,2} with stated lines up to 2^61; creations/deletions over absent, empty and "
                       "non-matching files; stacks of 2-4 patches. distinct = distinct case lines; non-trivial = at least "
                       "one hunk applied. " + rule_extra)


def replay(ctx, payload, oracle_line):
    c = payload.get("case")
    if not c:
        return False
    common.differential(ctx, [c], l1gen.encode, oracle_line, None, None, "replay", trivial, describe)
    common.finish(ctx, "replay of one recorded case")
    return True
