"""C17 - inconsistent quilt state or arguments are refused cleanly, nothing is touched.
Theorems: coq/Properties/C17.v.  Tie: model vs binary on inconsistent workspaces; statement check on the
binary: exit status 1 (never a crash) and a recursive snapshot (incl. inode, mtime) identical before/after."""
import copy

from props import common, l3common, l3gen, ws

ID = "C17"
NEEDS_BINARY = True
TRUSTED_BASE = l3common.TRUSTED_L3


ORIG = {}


def gen_case(rng, binary):
    """-> (workspace, cfg, kind); the underlying series applies completely (checked with a dry run), so the
    inconsistency introduced here is the first thing the push meets"""
    w = l3gen.gen_workspace(rng, npatches=rng.randint(2, 5), fail_prob=0.0, features=("modify", "create", "delete", "strip"))
    base = l3gen.default_cfg()
    base["dry"] = True
    d = l3gen.materialize(w, prefix="c17b")
    rc, _ = ws.run_push(binary, d, l3gen.cfg_args(base))
    ws.cleanup(d)
    if rc != 0:
        return None
    names = l3common.series_names(w)
    ORIG[id(w)] = dict(w["patches"])
    cfg = l3common.rand_cfg(rng, threads=(1, 2, 4))
    kind = rng.choice(["longer", "reordered", "edited", "goal-unknown", "goal-applied", "missing-patch", "unparseable-patch",
                       "binary-patch", "goal-unknown-all-applied", "unreadable-applied"])
    expect = "refuse"
    if kind == "longer":
        w["applied"] = b"\n".join(names + [b"extra.patch"] + ([b"more.patch"] if rng.random() < 0.5 else [])) + b"\n"
    elif kind == "reordered":
        if len(names) < 2:
            return None
        k = rng.randint(2, len(names))
        ap = names[:k]
        ap[0], ap[1] = ap[1], ap[0]
        w["applied"] = b"\n".join(ap) + b"\n"
    elif kind == "edited":
        k = rng.randint(1, len(names))
        ap = names[:k]
        ap[rng.randrange(k)] = b"other.patch"
        w["applied"] = b"\n".join(ap) + b"\n"
    elif kind == "unreadable-applied":
        # an applied-patches file that is there but is not a list of patches (an option the series syntax does not know,
        # an option without its argument, invalid UTF-8): refused - it must not be taken for "nothing applied"
        k = rng.randint(0, len(names) - 1)
        bad = rng.choice([b"zzz.patch -x", names[k] + b" -x", names[k] + b" --bogus", names[k] + b" -p", b"other\xff.patch",
                          names[k] + b" -R -q"])
        ap = names[:k] + [bad] + (names[k + 1:k + 2] if rng.random() < 0.3 else [])
        w["applied"] = b"\n".join(ap) + b"\n"
    elif kind == "goal-unknown":
        nm = rng.choice(names)
        # also names that merely end with, start with or contain a series entry: only the exact entry is a goal
        cfg["goal"] = ("U", rng.choice([b"nosuch.patch", b"nosuch.patch", b"elsewhere/" + nm, b"/nonexistent/dir/" + nm, nm + b"~",
                                        nm + b"/x", b"x" + nm]))
    elif kind == "goal-unknown-all-applied":
        w["applied"] = b"\n".join(names) + b"\n"
        cfg["goal"] = ("U", rng.choice([b"nosuch.patch", names[0]]))
    elif kind == "goal-applied":
        k = rng.randint(1, len(names))
        w["applied"] = b"\n".join(names[:k]) + b"\n"
        cfg["goal"] = ("U", names[rng.randrange(k)])
        # the applied prefix must really be applied for consistency of the tree; the refusal does not look at the tree
    elif kind == "missing-patch":
        victim = rng.choice(names)
        del w["patches"][victim]
    elif kind == "unparseable-patch":
        victim = rng.choice(names)
        w["patches"][victim] = rng.choice([b"--- a/f\n+++ b/f\n@@ -1 +1 @@\n-x\n", b"--- a/f\n+++ b/f\n@@ -1,2 +1 @@\n x\nfoo\n",
                                           b"--- a/f\n+++ b/f\n@@ -x +1 @@\n", b"--- a/f\n+++ b/../../f\n@@ -0,0 +1 @@\n+x\n",
                                           # cut off in the trailing context of its last hunk (seeded C17-i: the missing lines
                                           # were "tolerated" as empty context)
                                           b"--- a/f\n+++ b/f\n@@ -1,3 +1,3 @@\n a\n-b\n+B\n", b"--- a/f\n+++ b/f\n@@ -1,4 +1,4 @@\n a\n-b\n+B\n c\n"])
        if rng.random() < 0.3:
            # the offending line is long and holds characters of several bytes (and bytes that are no UTF-8) at every offset:
            # a message that quotes it must not be cut inside a character (seeded C17-j / C11-i: String::truncate panics there)
            junk = b"x" * rng.randint(0, 200) + b"".join(rng.choice([b"\xc3\xa9", b"\xe2\x82\xac", b"\xf0\x9f\x98\x80", b"\xff", b"y"])
                                                          for _ in range(rng.randint(40, 200)))
            w["patches"][victim] = rng.choice([b"--- a/f\n+++ b/f\n@@ -1,2 +1 @@\n x\n" + junk + b"\n",
                                               b"--- a/f\n+++ b/f\n@@ -" + junk + b" +1 @@\n",
                                               b"--- a/f\n+++ b/f\n@@ -1 +1 @@\n-x\n" + junk + b"\n"])
        orig = ORIG.get(id(w))
        if orig is not None and rng.random() < 0.4:
            # ... or the victim's own text, cut off inside the trailing context of its last hunk
            ls = orig[victim].split(b"\n")
            while ls and ls[-1] == b"":
                ls.pop()
            if len(ls) > 4 and ls[-1].startswith(b" ") and not ls[-1].startswith(b"  @@"):
                w["patches"][victim] = b"\n".join(ls[:-1]) + b"\n"
    elif kind == "binary-patch":
        victim = rng.choice(names)
        w["patches"][victim] = b"diff --git a/f b/f\nGIT binary patch\nliteral 0\n"
    return w, cfg, kind


def run(ctx):
    rng = ctx.rng
    thorough = ctx.tier == "thorough"
    cases, kinds = [], []
    while len(cases) < (900 if thorough else 180):
        c = gen_case(rng, ctx.binary)
        if c:
            cases.append((c[0], c[1]))
            kinds.append(c[2])
    reals = []
    bad = 0
    for (w, cfg), kind in zip(cases, kinds):
        d = l3gen.materialize(w, prefix="c17")
        before = ws.snapshot(d, with_inodes=True, skip=())
        rc, out = ws.run_push(ctx.binary, d, l3gen.cfg_args(cfg))
        after = ws.snapshot(d, with_inodes=True, skip=())
        reals.append("EXIT %s | %s" % (rc, l3gen.canon_snapshot(ws.snapshot(d, skip=("patches",)))))
        ws.cleanup(d)
        ctx.coverage.setdefault("input_histogram", __import__("collections").Counter())["kind=" + kind] += 1
        problems = []
        if rc != 1:
            problems.append("exit status %s (expected 1)" % rc)
        if before != after:
            changed = [p.decode("latin-1") for p in set(before) | set(after) if before.get(p) != after.get(p)]
            problems.append("tree changed: %s" % changed[:5])
        if problems:
            bad += 1
            if bad <= 2:
                ctx.violation({"kind": "refusal-" + kind, "problems": problems, "workspace": l3common.ws_json(w),
                               "cfg": l3common.cfg_json(cfg), "args": l3gen.cfg_args(cfg),
                               "tool_output_tail": out[-400:].decode("latin-1")})
    l3common.compare(ctx, cases, "inconsistent states", real_results=reals)
    ctx.coverage["statement_checks"] = len(cases)
    l3common.finish(ctx, "workspaces whose patches all apply, made inconsistent in one way: applied-patches longer than / reordered / "
                         "edited against series / not readable as a list of patches (unknown option, option without argument, invalid UTF-8); goal unknown / already applied (also with everything applied); a missing, "
                         "unparseable, unsafe-named or binary patch at a random position; thread counts 1/2/4.")


def replay(ctx, payload):
    if "workspace" not in payload:
        return run(ctx)
    w = l3common.ws_from_json(payload["workspace"])
    cfg = l3common.cfg_from_json(payload["cfg"])
    d = l3gen.materialize(w, prefix="c17")
    before = ws.snapshot(d, with_inodes=True, skip=())
    rc, out = ws.run_push(ctx.binary, d, l3gen.cfg_args(cfg))
    after = ws.snapshot(d, with_inodes=True, skip=())
    ws.cleanup(d)
    if rc != 1 or before != after:
        ctx.violation({"kind": "refusal", "problems": ["exit %s" % rc, "tree changed" if before != after else ""],
                       "workspace": payload["workspace"], "cfg": payload["cfg"]})
    l3common.compare(ctx, [(w, cfg)], "replay")
    l3common.finish(ctx, "replay")
