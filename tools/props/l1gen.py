"""Generators, encoding and output parsing for the L1 (FilePatch::apply / rollback) cases."""
import copy
import difflib
import re


def diff_hunks(a, b, ctx):
    """Hunks of the unified diff a->b with context width ctx, as the parser would build them."""
    sm = difflib.SequenceMatcher(None, a, b, autojunk=False)
    hunks = []
    for group in sm.get_grouped_opcodes(ctx):
        i1, i2 = group[0][1], group[-1][2]
        j1, j2 = group[0][3], group[-1][4]
        pre = group[0][2] - group[0][1] if group[0][0] == "equal" else 0
        suf = group[-1][2] - group[-1][1] if (group[-1][0] == "equal" and len(group) > 1) else 0
        if all(g[0] == "equal" for g in group):
            continue
        hunks.append({"rt": i1, "at": j1, "pre": pre, "suf": suf, "rem": list(a[i1:i2]), "add": list(b[j1:j2])})
    return hunks


def encode_hunk(h):
    return "%d %d %d %d %d %s %d %s" % (h["rt"], h["at"], h["pre"], h["suf"], len(h["rem"]),
                                        " ".join(map(str, h["rem"])), len(h["add"]), " ".join(map(str, h["add"])))


def encode_patch(p):
    return "%d %d %d %d %d %d %d %d %s" % (p["kind"], p["dir"], p["fuzz"], int(p["has_old"]), int(p["has_new"]),
                                           p["operm"], p["nperm"], len(p["hunks"]),
                                           " ".join(encode_hunk(h) for h in p["hunks"]))


def encode(c):
    mf = c["mf"]
    s = "l1 %d %d %d %d %s %d %s" % (int(mf["existed"]), int(mf["deleted"]), mf["perm"], len(mf["content"]),
                                     " ".join(map(str, mf["content"])), len(c["patches"]),
                                     " ".join(encode_patch(p) for p in c["patches"]))
    return re.sub(r" +", " ", s)


STATE_RE = re.compile(r"d(\d) p(\S+) \[([^\]]*)\]")


def parse_state(s):
    m = STATE_RE.match(s)
    return {"deleted": m.group(1) == "1", "perm": -1 if m.group(2) == "-" else int(m.group(2)),
            "content": [int(x) for x in m.group(3).split(",") if x != ""]}, s[m.end():].strip()


def parse_report(s):
    m = re.match(r"ok(\d) (\d) (\d+) \((.*)\)$", s)
    hs = []
    for part in m.group(4).split(";"):
        part = part.strip()
        if part.startswith("A"):
            hs.append(("A",) + tuple(int(x) for x in part.split()[1:]))
        elif part.startswith("F"):
            hs.append(("F", int(part[1:])))
        elif part == "S":
            hs.append(("S",))
    return {"ok": m.group(1) == "1", "dir": int(m.group(2)), "fuzz": int(m.group(3)), "hunks": hs}


def parse_output(out):
    """-> None for PANIC/other, else {'applies': [(state, report)], 'rollbacks': [state]} in output order"""
    if not out.startswith("OK"):
        return None
    res = {"applies": [], "rollbacks": []}
    for seg in out.split(" | ")[1:]:
        tag, rest = seg.split(" ", 1)
        st, rest = parse_state(rest)
        if tag.startswith("A"):
            res["applies"].append((st, parse_report(rest)))
        else:
            res["rollbacks"].append(st)
    return res


def report_tokens(hs):
    out = []
    for h in hs:
        if h[0] == "A":
            out.append("A %d %d %d %d %d" % h[1:])
        elif h[0] == "F":
            out.append("F %d" % h[1])
        else:
            out.append("S")
    return " ".join(out)


# ---------------------------------------------------------------------------------------------
# generators

def rand_file(rng, n, alphabet):
    return [rng.choice(alphabet) for _ in range(n)]


def mutate(rng, a, alphabet, edits):
    b = list(a)
    for _ in range(edits):
        k = rng.random()
        if k < 0.35 and b:
            del b[rng.randrange(len(b))]
        elif k < 0.7:
            b.insert(rng.randint(0, len(b)), rng.choice(alphabet))
        elif b:
            b[rng.randrange(len(b))] = rng.choice(alphabet)
    return b


def mk_patch(hunks, kind=0, d=0, fuzz=0, has_old=True, has_new=True, operm=-1, nperm=-1):
    return {"kind": kind, "dir": d, "fuzz": fuzz, "has_old": has_old, "has_new": has_new,
            "operm": operm, "nperm": nperm, "hunks": hunks}


def mk_file(content, existed=True, deleted=False, perm=0o100644):
    return {"existed": existed, "deleted": deleted, "perm": perm, "content": content}


def gen_modify(rng, maxlen=12, fuzz_max=3):
    """A Modify file patch derived from a real diff, then perturbed (offsets, fuzz, overlap)."""
    alphabet = rng.choice([[1, 2], [1, 2, 3], [1, 2, 3, 4, 5, 6]])
    a = rand_file(rng, rng.randint(0, maxlen), alphabet)
    b = mutate(rng, a, alphabet + [7, 8], rng.randint(1, 4))
    ctx = rng.choice([0, 1, 1, 2, 3])
    hunks = diff_hunks(a, b, ctx)
    d = 0
    target = list(a)
    if rng.random() < 0.3:
        d = 1
        target = list(b)
    style = rng.random()
    if style < 0.25:
        pass                                   # exact
    elif style < 0.5:
        # the file got lines added/removed in front / in the middle -> offsets
        k = rng.randint(0, len(target))
        if rng.random() < 0.6:
            target[k:k] = rand_file(rng, rng.randint(1, 3), alphabet)
        elif target:
            del target[k:k + rng.randint(1, 2)]
    elif style < 0.7:
        # stated line numbers are off
        for h in hunks:
            delta = rng.choice([-3, -2, -1, 1, 2, 5, 40, -40])
            h["rt"] = max(0, h["rt"] + delta)
            h["at"] = max(0, h["at"] + delta)
    elif style < 0.85:
        # corrupt a line of the file so that context needs fuzz (or the hunk fails)
        if target:
            target[rng.randrange(len(target))] = 9
    else:
        # widen contexts so that they overlap the neighbouring hunk's lines
        for h in hunks:
            src = a
            lo = h["rt"]
            extra = rng.randint(1, 3)
            take = src[max(0, lo - extra):lo]
            h["rem"] = take + h["rem"]
            h["add"] = take + h["add"]
            h["pre"] += len(take)
            h["rt"] -= len(take)
            h["at"] = max(0, h["at"] - len(take))
            hi = h["rt"] + len(h["rem"])
            take = src[hi:hi + rng.randint(0, 3)]
            h["rem"] = h["rem"] + take
            h["add"] = h["add"] + take
            h["suf"] += len(take)
    fuzz = rng.choice([0, 0, 1, 2, fuzz_max])
    return {"mf": mk_file(target), "patches": [mk_patch(hunks, 0, d, fuzz)], "expect": (a, b)}


def gen_shifted_repetitive(rng):
    """three to six hunks on a repetitive file that has been shifted since the diff was made: every hunk applies at
    an offset, and because blocks repeat a hunk matches at several places - which one is taken depends on the offset
    carried over from the previous hunk"""
    block = rng.choice([[1, 2], [1, 2, 3], [1, 2, 1, 3]])
    a = []
    while len(a) < rng.randint(18, 40):
        a += block
    b = list(a)
    nh = rng.randint(3, 6)
    step = max(len(a) // nh, 4)
    for i in range(nh):
        pos = min(i * step + rng.randint(0, 1), len(b) - 1)
        b[pos] = 7 + i % 3
    ctx = rng.choice([1, 1, 2])
    hunks = diff_hunks(a, b, ctx)
    target = list(a)
    d = 0
    k = rng.randint(1, 5)
    if rng.random() < 0.7:
        target[0:0] = (block * 3)[:k]
    else:
        del target[0:k]
    if rng.random() < 0.3 and len(target) > 10:
        m = rng.randrange(5, len(target) - 2)
        target[m:m] = (block * 2)[:rng.randint(1, 3)]
    return {"mf": mk_file(target), "patches": [mk_patch(hunks, 0, d, rng.choice([0, 0, 1, 2]))], "expect": (a, b)}


CR_TWIN = 1000000


def cr_twins(rng, c):
    """the same case with some lines of the file or of the patch replaced by their CR-LF twins (harness: "<n>\\r\\n"):
    lines that look alike but are not equal"""
    c = copy.deepcopy(c)
    where = rng.choice(["file", "patch", "both"])
    tw = lambda l: l + CR_TWIN if l < CR_TWIN and rng.random() < 0.5 else l
    if where in ("file", "both"):
        c["mf"]["content"] = [tw(l) for l in c["mf"]["content"]]
    if where in ("patch", "both"):
        for p in c["patches"]:
            for h in p["hunks"]:
                h["rem"] = [tw(l) for l in h["rem"]]
    return c


def gen_random_hunks(rng, maxlen=8):
    """Arbitrary well-formed hunks (contexts equal on both sides) on a highly repetitive file."""
    alphabet = [1, 2]
    c = rand_file(rng, rng.randint(0, maxlen), alphabet)
    nh = rng.randint(1, 3)
    hunks = []
    for _ in range(nh):
        pre = rng.randint(0, 3)
        suf = rng.randint(0, 3)
        pc = rand_file(rng, pre, alphabet)
        sc = rand_file(rng, suf, alphabet)
        rem = rand_file(rng, rng.randint(0, 2), alphabet)
        add = rand_file(rng, rng.randint(0, 2), alphabet + [3])
        rt = rng.choice([0, 0, 1, 2, 3, 5, 8, 11, 1 << 31, (1 << 61)])
        at = rng.choice([0, 0, 1, rt, rt, 4])
        hunks.append({"rt": rt, "at": at, "pre": pre, "suf": suf, "rem": pc + rem + sc, "add": pc + add + sc})
    if rng.random() < 0.7:
        hunks.sort(key=lambda h: h["rt"])
    return {"mf": mk_file(c), "patches": [mk_patch(hunks, 0, rng.choice([0, 0, 1]), rng.choice([0, 1, 2, 3, 4]))]}


def gen_create_delete(rng):
    alphabet = [1, 2, 3]
    body = rand_file(rng, rng.randint(1, 4), alphabet)
    kind = rng.choice([1, 2])
    d = rng.choice([0, 1])
    creating = (kind == 1) == (d == 0)
    if kind == 1:
        h = {"rt": 0, "at": 0, "pre": 0, "suf": 0, "rem": [], "add": body}
    else:
        h = {"rt": 0, "at": 0, "pre": 0, "suf": 0, "rem": body, "add": []}
    st = rng.random()
    if creating:
        if st < 0.5:
            mf = mk_file([], existed=False, deleted=True, perm=-1)       # absent
        elif st < 0.75:
            mf = mk_file([], existed=True, deleted=False)                # exists, empty
        else:
            mf = mk_file(rand_file(rng, 2, alphabet))                    # exists, non-empty: must fail
    else:
        if st < 0.7:
            mf = mk_file(list(body))
        elif st < 0.85:
            mf = mk_file(list(body) + [1])
        else:
            mf = mk_file([], existed=False, deleted=True, perm=-1)
    has_old = rng.random() < 0.5 if kind == 1 else True
    has_new = rng.random() < 0.5 if kind == 2 else True
    operm = rng.choice([-1, -1, 0o100644, 0o100755])
    nperm = rng.choice([-1, -1, 0o100644, 0o100755])
    return {"mf": mf, "patches": [mk_patch([h], kind, d, rng.choice([0, 2]), has_old, has_new, operm, nperm)]}


def gen_stack(rng):
    """Several file patches applied to one file, then undone in reverse order."""
    c = gen_modify(rng, maxlen=8)
    n = rng.randint(1, 3)
    cur = c["expect"][1] if c["patches"][0]["dir"] == 0 else c["expect"][0]
    for _ in range(n):
        k = rng.random()
        if k < 0.6:
            alphabet = [1, 2, 3]
            nxt = mutate(rng, cur, alphabet + [7], rng.randint(1, 3))
            hs = diff_hunks(cur, nxt, rng.choice([0, 1, 2]))
            p = mk_patch(hs, 0, 0, rng.choice([0, 1, 2]), operm=rng.choice([-1, 0o100644]), nperm=rng.choice([-1, 0o100755]))
            if rng.random() < 0.3:
                # reversed entry: swap the sides
                for h in hs:
                    h["rem"], h["add"] = h["add"], h["rem"]
                    h["rt"], h["at"] = h["at"], h["rt"]
                p["dir"] = 1
            c["patches"].append(p)
            cur = nxt
        else:
            c["patches"].append(gen_create_delete(rng)["patches"][0])
    return c


def shrink_cands(c):
    """smaller variants of a case"""
    ps = c["patches"]
    if len(ps) > 1:
        for i in range(len(ps)):
            d = copy.deepcopy(c)
            del d["patches"][i]
            yield d
    for pi, p in enumerate(ps):
        for hi in range(len(p["hunks"])):
            if len(p["hunks"]) > 1:
                d = copy.deepcopy(c)
                del d["patches"][pi]["hunks"][hi]
                yield d
            h = p["hunks"][hi]
            # drop a context line at either end
            if h["pre"] > 0:
                d = copy.deepcopy(c)
                hh = d["patches"][pi]["hunks"][hi]
                hh["pre"] -= 1
                hh["rem"] = hh["rem"][1:]
                hh["add"] = hh["add"][1:]
                hh["rt"] += 1
                hh["at"] += 1
                yield d
            if h["suf"] > 0:
                d = copy.deepcopy(c)
                hh = d["patches"][pi]["hunks"][hi]
                hh["suf"] -= 1
                hh["rem"] = hh["rem"][:-1]
                hh["add"] = hh["add"][:-1]
                yield d
        if p["fuzz"] > 0:
            d = copy.deepcopy(c)
            d["patches"][pi]["fuzz"] -= 1
            yield d
    n = len(c["mf"]["content"])
    for i in range(n):
        d = copy.deepcopy(c)
        del d["mf"]["content"][i]
        yield d
        d = copy.deepcopy(c)
        del d["mf"]["content"][i]
        for p in d["patches"]:
            for h in p["hunks"]:
                if h["rt"] > i:
                    h["rt"] -= 1
                if h["at"] > i:
                    h["at"] -= 1
        yield d
    d = copy.deepcopy(c)
    if "expect" in d:
        del d["expect"]
        yield d
