"""C05 - push is all-or-nothing per patch: tree = first k patches, k = names recorded.
Theorems: coq/Properties/C05.v.  Tie: L3 model vs the binary on random workspaces with failures at any
position (threads 1/2/4, all backup modes).  Statement checks on the binary alone: k = number of names
appended to .pc/applied-patches; exit 0 iff k = whole range; tracked files = tracked files produced by a
push of the first k patches only, on a fresh copy; nothing else changed except *.rej and .pc."""
import copy

from props import common, l3common, l3gen, ws

ID = "C05"
NEEDS_BINARY = True
TRUSTED_BASE = l3common.TRUSTED_L3


def truncated(w, k):
    names = l3common.series_names(w)
    d = copy.deepcopy(w)
    keep = names[:k]
    out = []
    for l in w["series"].split(b"\n"):
        if not l.strip() or l.startswith(b"#"):
            continue
        if l.split()[0] in keep:
            out.append(l)
    d["series"] = b"\n".join(out) + (b"\n" if out else b"")
    return d


def no_series(parts):
    # the series file itself differs between the two runs by construction
    return [p for p in parts if p.split()[1] != b"series".hex()]


def statement_problems(ctx, w, cfg, real):
    probs = []
    names = l3common.series_names(w)
    rc = l3common.exit_of(real)
    if rc not in ("0", "1"):
        return ["exit status %s" % rc]
    applied = l3common.applied_patches(real)
    k = len(applied)
    if applied != names[:k]:
        probs.append("applied-patches %r is not a prefix of the series %r" % (applied, names))
    if (rc == "0") != (k == len(names)):
        probs.append("exit status %s with %d of %d patches recorded" % (rc, k, len(names)))
    # tracked tree = first k patches
    c2 = l3gen.default_cfg()
    c2["backup"] = "N"
    c2["fuzz"] = cfg["fuzz"]
    ref, out, _ = l3gen.run_real(ctx.binary, truncated(w, k), c2)
    if l3common.exit_of(ref) != "0" and k > 0:
        probs.append("the first %d patches do not apply on their own (exit %s)" % (k, l3common.exit_of(ref)))
    a, b = no_series(l3common.tracked(real)), no_series(l3common.tracked(ref))
    if a != b:
        probs.append("tracked files differ from the tree after the first %d patches: only here %s, only there %s" % (
            k, [x[:120] for x in a if x not in b][:3], [x[:120] for x in b if x not in a][:3]))
    if rc == "0" and l3common.rejects(real):
        probs.append("reject files after a successful push")
    return probs


def run(ctx):
    rng = ctx.rng
    thorough = ctx.tier == "thorough"
    n = 900 if thorough else 160
    cases = []
    for _ in range(n):
        w = l3gen.gen_workspace(rng, fail_prob=0.55)
        cases.append((w, l3common.rand_cfg(rng, threads=(1, 1, 2, 4))))
    # rename corner cases (found while proving C04_tree_rename) run first
    cases = l3common_corpus() + cases
    reals = l3common.compare(ctx, cases, "workspaces with failures")
    bad = 0
    for (w, cfg), r in zip(cases, reals):
        probs = statement_problems(ctx, w, cfg, r)
        if probs:
            bad += 1
            if bad <= 2:
                ctx.violation({"kind": "not-all-or-nothing", "problems": probs, "workspace": l3common.ws_json(w),
                               "cfg": l3common.cfg_json(cfg), "args": l3gen.cfg_args(cfg)})
    continued_pushes(ctx, rng, 120 if thorough else 30)
    dry_runs(ctx, rng, 60 if thorough else 16)
    ctx.coverage["statement_checks"] = len(cases)
    l3common.finish(ctx, "random workspaces (1-4 files, 1-6 patches, 1-3 file entries each: modify/create/delete/rename/mode, "
                         "duplicate entries, -pN/-R), a corrupted hunk in ~55%; thread counts 1/2/4; all backup modes; plus a "
                         "corpus of rename corner cases. distinct = distinct (workspace, config).")


def continued_pushes(ctx, rng, n):
    """the same statement from a tree where an earlier invocation already applied j patches: the names THIS run
    appends to .pc/applied-patches are exactly the patches it applied, in order, after the j names that were there;
    the tree is the starting tree with the first j+k patches; exit 0 iff j+k is the whole series"""
    from props import C09
    done = bad = 0
    tries = 0
    while done < n and tries < 6 * n:
        tries += 1
        w = l3gen.gen_workspace(rng, npatches=rng.randint(2, 6), fail_prob=0.5)
        names = l3common.series_names(w)
        if len(names) < 2:
            continue
        j = rng.randint(1, len(names) - 1)
        cfg = l3common.rand_cfg(rng, threads=(1, 1, 2, 4))
        steps = [(("C", j), 1), (rng.choice([("A",), ("C", len(names) - j), ("U", names[-1])]), cfg["threads"])]
        res = C09.run_steps(ctx.binary, w, cfg, steps)
        if l3common.exit_of(res[0]) != "0" or l3common.applied_patches(res[0]) != names[:j]:
            continue          # the first invocation did not get to j: not the situation wanted here
        done += 1
        rc = l3common.exit_of(res[1])
        applied = l3common.applied_patches(res[1])
        probs = []
        if rc not in ("0", "1"):
            probs.append("exit status %s" % rc)
        if applied[:j] != names[:j] or applied != names[:len(applied)]:
            probs.append("after the second invocation applied-patches is %r: not the %d earlier names followed by the patches "
                         "this run applied (series %r)" % (applied, j, names))
        k = len(applied) - j
        if (rc == "0") != (len(applied) == len(names)):
            probs.append("exit status %s with %d of %d patches recorded" % (rc, len(applied), len(names)))
        if not probs:
            c2 = l3gen.default_cfg()
            c2["backup"] = "N"
            c2["fuzz"] = cfg["fuzz"]
            ref, _, _ = l3gen.run_real(ctx.binary, truncated(w, len(applied)), c2)
            a, b = no_series(l3common.tracked(res[1])), no_series(l3common.tracked(ref))
            if a != b:
                probs.append("tracked files after %d earlier + %d new patches differ from a push of the first %d patches: only here %s, only there %s" % (
                    j, k, len(applied), [x[:120] for x in a if x not in b][:3], [x[:120] for x in b if x not in a][:3]))
        if probs:
            bad += 1
            if bad <= 2:
                ctx.violation({"kind": "not-all-or-nothing-continued", "problems": probs, "workspace": l3common.ws_json(w),
                               "cfg": l3common.cfg_json(cfg), "earlier_patches": j,
                               "steps": [[list(map(lambda x: x.decode("latin-1") if isinstance(x, bytes) else x, g)), t] for g, t in steps]})
    ctx.coverage["continued_pushes"] = done
    ctx.coverage["evaluations"] = ctx.coverage.get("evaluations", 0) + done


def dry_runs(ctx, rng, n):
    """a dry run applies nothing: k = 0 names appended, the tree is the starting tree - also from a tree with applied
    patches, with every thread count"""
    from props import C09
    bad = 0
    for _ in range(n):
        w = l3gen.gen_workspace(rng, npatches=rng.randint(2, 5), fail_prob=0.3)
        names = l3common.series_names(w)
        cfg = l3common.rand_cfg(rng, threads=(1, 2, 2, 4), dry=True)
        j = rng.randint(0, max(0, len(names) - 1))
        steps = ([(("C", j), 1)] if j else []) + [(("A",), cfg["threads"])]
        d = l3gen.materialize(w, prefix="c05d")
        start = l3gen.canon_snapshot(ws.snapshot(d, skip=("patches",))).split(" | ")
        res = []
        for k, (g, th) in enumerate(steps):
            c = dict(cfg); c["goal"] = g; c["threads"] = th; c["dry"] = (k == len(steps) - 1)
            rc, out = ws.run_push(ctx.binary, d, l3gen.cfg_args(c), timeout=30)
            res.append("EXIT %s | %s" % (rc, l3gen.canon_snapshot(ws.snapshot(d, skip=("patches",)))))
        ws.cleanup(d)
        before = res[-2].split(" | ")[1:] if len(res) > 1 else None
        after = res[-1].split(" | ")[1:]
        ctx.coverage["dry_run_statement_checks"] = ctx.coverage.get("dry_run_statement_checks", 0) + 1
        if before is None:
            before = start
        if after != before:
            bad += 1
            if bad <= 2:
                ctx.violation({"kind": "not-all-or-nothing-dry", "problems": ["a dry run (threads=%d, after %d applied patches) changed: %s" % (
                    cfg["threads"], j, [x[:120] for x in set(after) ^ set(before)][:4])], "workspace": l3common.ws_json(w), "cfg": l3common.cfg_json(cfg)})


def l3common_corpus():
    F = lambda d, m=0o644: (d, m)
    base = l3gen.default_cfg()
    fail_g = b"--- a/g\n+++ b/g\n@@ -1 +1 @@\n-zzz\n+b\n"
    out = []
    # rename onto an existing empty file, then a failure in the same patch
    out.append(({"files": {b"g": F(b"a\n"), b"empty": F(b"", 0o600)}, "dirs": [], "applied": None,
                 "series": b"p.patch\n", "patches": {b"p.patch": b"diff --git a/g b/empty\nsimilarity index 100%\nrename from g\nrename to empty\n" + fail_g.replace(b"/g", b"/x")}}, dict(base)))
    # rename of a missing file
    out.append(({"files": {b"g": F(b"a\n")}, "dirs": [], "applied": None, "series": b"p.patch\n",
                 "patches": {b"p.patch": b"diff --git a/missing b/new\nsimilarity index 100%\nrename from missing\nrename to new\n" + fail_g}}, dict(base)))
    # rename to the name the file already has
    out.append(({"files": {b"g": F(b"a\n"), b"b": F(b"content\n", 0o600)}, "dirs": [], "applied": None, "series": b"p.patch\n",
                 "patches": {b"p.patch": b"diff --git a/a b/b\nsimilarity index 100%\nrename from a\nrename to b\n" + fail_g}}, dict(base)))
    # creation named on both lines, then a failure (P8)
    out.append(({"files": {b"g": F(b"a\n")}, "dirs": [], "applied": None, "series": b"p.patch\n",
                 "patches": {b"p.patch": b"--- a/new\n+++ b/new\n@@ -0,0 +1 @@\n+hello\n" + fail_g}}, dict(base)))
    # reversed entry that fails (P22)
    out.append(({"files": {b"g": F(b"a\nb\nc\n")}, "dirs": [], "applied": None, "series": b"p.patch -R\n",
                 "patches": {b"p.patch": b"--- a/g\n+++ b/g\n@@ -1,3 +1,3 @@\n a\n-X\n+b\n c\n@@ -7 +7 @@\n-q\n+r\n"}}, dict(base)))
    # a patch that applies, followed by one that cannot be loaded (missing / unparseable / binary): the push ends with an
    # error and leaves NOTHING of the first patch either - tree and applied-patches go together (seeded C05-h)
    good = b"--- a/g\n+++ b/g\n@@ -1 +1 @@\n-a\n+b\n"
    for second in (None, b"--- a/g\n+++ b/g\n@@ -1,2 +1 @@\n b\nfoo\n", b"diff --git a/g b/g\nGIT binary patch\nliteral 0\n"):
        patches = {b"p1.patch": good}
        if second is not None:
            patches[b"p2.patch"] = second
        out.append(({"files": {b"g": F(b"a\n"), b"h": F(b"keep\n")}, "dirs": [], "applied": None, "series": b"p1.patch\np2.patch\n",
                     "patches": patches}, dict(base)))
    for w, c in list(out):
        c2 = dict(c)
        c2["threads"] = 2
        c2["backup"] = "A"
        out.append((w, c2))
    return out


def replay(ctx, payload):
    if "workspace" not in payload or "earlier_patches" in payload or payload.get("kind") == "not-all-or-nothing-dry":
        return run(ctx)
    w = l3common.ws_from_json(payload["workspace"])
    cfg = l3common.cfg_from_json(payload["cfg"])
    reals = l3common.compare(ctx, [(w, cfg)], "replay")
    probs = statement_problems(ctx, w, cfg, reals[0])
    if probs:
        ctx.violation({"kind": "not-all-or-nothing", "problems": probs, "workspace": payload["workspace"], "cfg": payload["cfg"]})
    l3common.finish(ctx, "replay")
