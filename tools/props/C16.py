"""C16 - per-patch series options and file-name resolution are honoured consistently.
Theorems: coq/Properties/C16.v.  Tie: L3 model vs binary on workspaces that stress series-line spellings,
strip levels vs path depths and every combination of old/new name existing (on disk, created, deleted or
renamed away earlier in the run).  Metamorphic runs on the binary alone: re-spelling the options of every
series line (-pN / -p N / --strip=N / --strip N, -R / --reverse, either order, default -p1 made explicit),
adding comments, blank lines and indentation must not change the result; a patch written with d leading
components and -pd must give the same result as the same patch with the components removed and -p0;
threads 1 vs 4 and one push vs one push per patch must choose the same files."""
import collections
import copy
import re

from props import common, l3common, l3gen, ws

ID = "C16"
NEEDS_BINARY = True
TRUSTED_BASE = l3common.TRUSTED_L3


def parse_opts(tokens):
    strip, rev = None, False
    i = 0
    while i < len(tokens):
        o = tokens[i]
        if o.startswith(b"-p") and len(o) > 2:
            strip = int(o[2:])
        elif o in (b"-p", b"--strip"):
            strip = int(tokens[i + 1])
            i += 1
        elif o.startswith(b"--strip="):
            strip = int(o[8:])
        elif o in (b"-R", b"--reverse"):
            rev = True
        i += 1
    return strip, rev


def respell(rng, series):
    out = b""
    for l in series.split(b"\n"):
        t = l.split()
        if not t or l.startswith(b"#"):
            continue
        strip, rev = parse_opts(t[1:])
        opts = []
        if strip is None:
            if rng.random() < 0.5:
                strip = 1
        if strip is not None:
            opts.append(rng.choice([b"-p%d" % strip, b"-p %d" % strip, b"--strip=%d" % strip, b"--strip %d" % strip]))
        if rev:
            opts.append(rng.choice([b"-R", b"--reverse"]))
        rng.shuffle(opts)
        if rng.random() < 0.3:
            out += rng.choice([b"# a comment\n", b"\n", b"#\n", b"   \n", b"#p9.patch -p7\n"])
        sep = rng.choice([b" ", b"  ", b"\t"])
        out += (rng.choice([b"", b"", b" ", b"\t"]) + sep.join([t[0]] + opts) + rng.choice([b"", b"", b" "]) + b"\n")
    return out


def comparable(snap):
    """everything but the series file (which differs by construction)"""
    return [p for p in snap.split(" | ") if not (p.startswith("F ") and p.split()[1] == b"series".hex())]


NAME = re.compile(rb"^(--- |\+\+\+ |diff --git |Index: )(.*)$")


def restrip(patch, strip):
    """remove `strip` leading components from every ---/+++/diff --git/Index: name of a patch whose names all
    have at least that many (generator output); None if some name is too short or quoted"""
    out = []
    in_hunk_lines = 0
    for l in patch.split(b"\n"):
        m = NAME.match(l)
        if m and not l.startswith((b"--- /dev/null", b"+++ /dev/null")):
            kind, rest = m.group(1), m.group(2)
            if b'"' in rest:
                return None
            if kind == b"diff --git ":
                parts = rest.split(b" ")
                if len(parts) != 2:
                    return None
                names = parts
                tail = b""
            else:
                names = [rest.split(b"\t")[0]]
                tail = rest[len(names[0]):]
            new = []
            for n in names:
                if b"//" in n or b"/./" in n or n.startswith(b"./"):
                    return None          # non-canonical spellings: left to the model comparison and the strip grid
                comps = n.split(b"/")
                if len(comps) <= strip:
                    return None
                new.append(b"/".join(comps[strip:]))
            out.append(kind + b" ".join(new) + tail)
        else:
            out.append(l)
    return b"\n".join(out)


def run(ctx):
    rng = ctx.rng
    thorough = ctx.tier == "thorough"
    n = 700 if thorough else 120
    hist = ctx.coverage.setdefault("input_histogram", collections.Counter())
    cases = []
    for _ in range(n):
        w = l3gen.gen_workspace(rng, fail_prob=0.25)
        cases.append((w, l3common.rand_cfg(rng, threads=(1, 1, 2, 4))))
    cases = names_corpus() + cases
    # strip levels vs path shapes on the parser alone: implementation = model on every combination
    grid = []
    for pre in (b"", b"a/", b"./", b"./a/", b"a/./", b".//a/", b"a//", b"a/b/", b"./a/b/"):
        for tail in (b"f.c", b"dir/f.c", b"dir/sub/f.c", b"./f.c"):
            for strip in (0, 1, 2, 3):
                nm = pre + tail
                grid.append("parse %d 0 %s" % (strip, (b"--- " + nm + b"\n+++ " + nm + b"\n@@ -1 +1 @@\n-a\n+b\n").hex()))
    gi, gm = ctx.impl(grid), ctx.model(grid)
    hist["strip grid"] += len(grid)
    for line, a, b in zip(grid, gi, gm):
        if a != b:
            ctx.violation({"kind": "correspondence-mismatch", "correspondence": "strip level vs path shape: parse_patch vs model", "case": line[:200],
                           "impl": a[:200], "model": b[:200]}, no_input=True)
            break
    reals = l3common.compare(ctx, cases, "series options and name choice")
    bad = 0
    for (w, cfg), r in zip(cases, reals):
        probs = []
        # 1. re-spelled series
        w2 = copy.deepcopy(w)
        w2["series"] = respell(rng, w["series"])
        r2, _, _ = l3gen.run_real(ctx.binary, w2, cfg)
        hist["respelled"] += 1
        if comparable(r2) != comparable(r):
            a, b = comparable(r), comparable(r2)
            probs.append("re-spelling the series %r as %r changes the result: %s / %s" % (
                w["series"], w2["series"], [x[:80] for x in a if x not in b][:3], [x[:80] for x in b if x not in a][:3]))
        # 2. -pN vs names stripped by hand and -p0
        w3 = copy.deepcopy(w)
        ok = True
        lines = []
        for l in w["series"].split(b"\n"):
            t = l.split()
            if not t or l.startswith(b"#"):
                continue
            strip, rev = parse_opts(t[1:])
            strip = 1 if strip is None else strip
            np = restrip(w["patches"][t[0]], strip)
            if np is None:
                ok = False
                break
            w3["patches"][t[0]] = np
            lines.append(t[0] + b" -p0" + (b" -R" if rev else b""))
        if ok:
            w3["series"] = b"\n".join(lines) + b"\n"
            r3, _, _ = l3gen.run_real(ctx.binary, w3, cfg)
            hist["restripped"] += 1
            a, b = strip_rej_headers(comparable(r)), strip_rej_headers(comparable(r3))
            if a != b:
                probs.append("stripping the names by hand and using -p0 changes the result: %s / %s" % (
                    [x[:80] for x in a if x not in b][:3], [x[:80] for x in b if x not in a][:3]))
        # 3. threads and split pushes
        from props.C06 import file_patches
        if cfg["threads"] == 1 and rng.random() < 0.5 and file_patches(ctx, w) is not None:
            # (a series with a patch that does not parse is refused as a whole by the parallel driver, C06/C17)
            c4 = dict(cfg)
            c4["threads"] = 4
            r4, _, _ = l3gen.run_real(ctx.binary, w, c4)
            hist["threads 1 vs 4"] += 1
            if r4 != r and not l3gen.model_err(ctx.model([l3gen.model_line(w, cfg)])[0]):
                probs.append("threads=4 differs from threads=1")
        if probs:
            bad += 1
            if bad <= 2:
                ctx.violation({"kind": "options-or-names-inconsistent", "problems": probs[:5], "workspace": l3common.ws_json(w),
                               "cfg": l3common.cfg_json(cfg), "args": l3gen.cfg_args(cfg)})
    l3common.finish(ctx, "random workspaces (strip 0/1/2 in four spellings, -R/--reverse, comments, blank and indented lines, "
                         ".orig-style and gone old names) plus a corpus of old/new existence combinations; each also run with "
                         "re-spelled series lines, with names stripped by hand and -p0, and with 4 threads.")


def strip_rej_headers(parts):
    """reject files repeat the (stripped) names, which are equal, but `diff --git` lines are regenerated the
    same way too - nothing to normalise; kept as a hook"""
    return parts


def names_corpus():
    F = lambda d, m=0o644: (d, m)
    base = l3gen.default_cfg()
    out = []
    body = b"a\nb\nc\n"
    hunk = b"@@ -1,3 +1,3 @@\n a\n-b\n+B\n c\n"
    create = b"@@ -0,0 +1,3 @@\n+a\n+b\n+c\n"
    delete = b"@@ -1,3 +0,0 @@\n-a\n-b\n-c\n"
    for old_exists in (True, False):
        for new_exists in (True, False):
            files = {b"keep": F(b"k\n")}
            if old_exists:
                files[b"old.c"] = F(body)
            if new_exists:
                files[b"new.c"] = F(body)
            w = {"files": files, "dirs": [], "applied": None, "series": b"p.patch\n",
                 "patches": {b"p.patch": b"--- a/old.c\n+++ b/new.c\n" + hunk}}
            out.append((w, dict(base)))
    # old name created earlier in the run / deleted earlier / renamed away earlier
    out.append(({"files": {b"new.c": F(b"zzz\n")}, "dirs": [], "applied": None, "series": b"p1.patch\np2.patch\n",
                 "patches": {b"p1.patch": b"--- /dev/null\n+++ b/old.c\n" + create, b"p2.patch": b"--- a/old.c\n+++ b/new.c\n" + hunk}}, dict(base)))
    out.append(({"files": {b"old.c": F(body), b"new.c": F(body)}, "dirs": [], "applied": None, "series": b"p1.patch\np2.patch\n",
                 "patches": {b"p1.patch": b"--- a/old.c\n+++ /dev/null\n" + delete, b"p2.patch": b"--- a/old.c\n+++ b/new.c\n" + hunk}}, dict(base)))
    out.append(({"files": {b"old.c": F(body), b"new.c": F(body)}, "dirs": [], "applied": None, "series": b"p1.patch\np2.patch\n",
                 "patches": {b"p1.patch": b"diff --git a/old.c b/moved.c\nsimilarity index 100%\nrename from old.c\nrename to moved.c\n",
                             b"p2.patch": b"--- a/old.c\n+++ b/new.c\n" + hunk}}, dict(base)))
    # a chain of old/new name pairs over five patches: the name a patch is dispatched by and the file it ends up patching
    # differ, and which file that is depends on what earlier patches of the same run left in memory (seeded C16-j: the
    # distributor linked such a chain so that one name landed on another worker, which then looked at the disk)
    c_in = b"@@ -1,3 +1,3 @@\n a\n-b\n+B\n c\n"
    out.append(({"files": {b"conf.c.in": F(body)}, "dirs": [], "applied": None,
                 "series": b"p0.patch\np1.patch\np2.patch\np3.patch\np4.patch\n",
                 "patches": {b"p0.patch": b"--- a/conf.c\n+++ b/conf.c.in\n" + c_in,
                             b"p1.patch": b"--- a/conf.c.orig\n+++ b/conf.c\n" + create,
                             b"p2.patch": b"--- a/conf.c.old\n+++ b/conf.c\n@@ -1,3 +1,3 @@\n-a\n+A\n b\n c\n",
                             b"p3.patch": b"--- a/conf.c.bak\n+++ b/conf.c\n@@ -1,3 +1,3 @@\n A\n b\n-c\n+C\n",
                             b"p4.patch": b"--- a/conf.c\n+++ b/conf.c.in\n@@ -1,3 +1,3 @@\n A\n-b\n+bee\n C\n"}}, dict(base, threads=2)))
    # strip level vs depth
    for strip, pre in ((0, b""), (1, b"a/"), (2, b"a/b/"), (3, b"x/y/z/")):
        w = {"files": {b"dir/f.c": F(body)}, "dirs": [], "applied": None, "series": b"p.patch -p%d\n" % strip,
             "patches": {b"p.patch": b"--- " + pre + b"dir/f.c\n+++ " + pre + b"dir/f.c\n" + hunk}}
        out.append((w, dict(base)))
    # a leading "./" is a component for -pN (GNU patch strips up to the N-th slash) and is dropped afterwards
    for strip, name in ((1, b"./dir/f.c"), (2, b"./a/dir/f.c"), (0, b"./dir/f.c"), (1, b"a/./dir/f.c"), (2, b".//a//dir/f.c")):
        w = {"files": {b"dir/f.c": F(body), b"f.c": F(b"zzz\n")}, "dirs": [], "applied": None, "series": b"p.patch -p%d\n" % strip,
             "patches": {b"p.patch": b"--- " + name + b"\n+++ " + name + b"\n" + hunk}}
        out.append((w, dict(base)))
    # /dev/null is never a target
    out.append(({"files": {}, "dirs": [], "applied": None, "series": b"p.patch -p0\n",
                 "patches": {b"p.patch": b"--- /dev/null\n+++ dev/null\n" + create}}, dict(base)))
    for w, c in list(out):
        c2 = dict(c)
        c2["threads"] = 4
        out.append((w, c2))
    return out


def replay(ctx, payload):
    if "workspace" not in payload:
        return run(ctx)
    w = l3common.ws_from_json(payload["workspace"])
    cfg = l3common.cfg_from_json(payload["cfg"])
    l3common.compare(ctx, [(w, cfg)], "replay")
    l3common.finish(ctx, "replay")
