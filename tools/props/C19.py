"""C19 - patch file names can never make a push touch files outside the working tree.
Theorems: coq/Properties/C19.v.  Tie: (a) the parser model vs the implementation's parser on a generator of
escaping spellings (absolute, '..' before/after the strip level, inside the name, quoted octal escapes,
'//' and './' noise, in ---/+++/diff --git/rename lines) x strip levels 0-3: same accept/refuse and same
names; (b) L3 model vs binary on workspaces whose patch carries such a name.  Statement check on the
binary: the working directory sits two levels below a sentinel directory holding files the escaping names
point at (also by absolute path); after the push nothing outside the working directory has changed
(content, mode, inode, new entries), and when a name escapes the push exits 1 leaving the tree as it was."""
import collections
import os
import shutil

import rqlib
from props import common, l2gen, l3common, l3gen, ws

ID = "C19"
NEEDS_BINARY = True
TRUSTED_BASE = l3common.TRUSTED_L3 + ["symbolic links inside the working tree are outside the model and are not generated",
                                      "patch FILE names in the series (as opposed to file names inside a patch) are outside C19"]


def quote(name):
    """C-quote a name, octal-escaping a random subset of bytes (bytes above 127 sometimes raw, sometimes escaped)"""
    return b'"' + b"".join(b"\\%03o" % c if (c in b'./"\\' and (c * 7) % 3 != 0) or (c >= 128 and c % 2) else bytes([c])
                           for c in name) + b'"'


def evil_names(rng, outer_abs):
    # (names that are not valid UTF-8 are file names like any other)
    t = rng.choice([b"victim", b"sent/victim", b"newfile", b"victim-\xe9", b"new-\xff\xfe", b"sent/victim-\xe9"])
    forms = [
        b"../" + t, b"../../" + t, b"../../../" + t, b"d/../../" + t, b"./../" + t, b"d//..//../" + t, b"d/./.././../" + t,
        outer_abs + b"/" + t, b"/" + outer_abs.lstrip(b"/") + b"/" + t, b"//" + outer_abs.lstrip(b"/") + b"/" + t,
        b"..", b"../", b"d/..", b"...", b"..x/" + t, b"x../" + t, b"d/.../" + t,
    ]
    return rng.choice(forms), t


def gen_case(rng, outer_abs):
    """-> (workspace, strip, escapes?) ; the patch creates/modifies/deletes through an escaping name"""
    name, t = evil_names(rng, outer_abs)
    strip = rng.choice([0, 1, 1, 2, 3])
    pre = [b"", b"a/", b"a/b/", b"x/y/z/"][strip]
    if name.startswith(b"/") and rng.random() < 0.7:
        pre = b""        # absolute names usually come without a prefix
        if rng.random() < 0.5:
            strip = 0
    full = pre + name
    style = rng.choice(["create", "modify", "delete", "git-mode", "rename-to", "rename-from", "old-only", "index-line", "garbage-names"])
    q = (lambda n: quote(n)) if rng.random() < 0.25 else (lambda n: n)
    inner = pre + b"inside.txt"
    if style == "create":
        text = b"--- /dev/null\n+++ " + q(full) + b"\n@@ -0,0 +1 @@\n+pwned\n"
    elif style == "modify":
        text = b"--- " + q(full) + b"\n+++ " + q(full) + b"\n@@ -1 +1 @@\n-secret\n+pwned\n"
    elif style == "delete":
        text = b"--- " + q(full) + b"\n+++ /dev/null\n@@ -1 +0,0 @@\n-secret\n"
    elif style == "git-mode":
        text = b"diff --git " + q(full) + b" " + q(full) + b"\nold mode 100644\nnew mode 100755\n"
    elif style == "rename-to":
        text = b"diff --git " + q(inner) + b" " + q(full) + b"\nsimilarity index 100%\nrename from inside.txt\nrename to " + name + b"\n"
    elif style == "rename-from":
        text = b"diff --git " + q(full) + b" " + q(inner) + b"2\nsimilarity index 100%\nrename from " + name + b"\nrename to inside.txt2\n"
    elif style == "index-line":
        # the escaping name only in an Index: line, harmless names that do not exist on the ---/+++ lines
        text = b"Index: " + full + b"\n===================================================================\n--- " + pre + b"nosuch.c\n+++ " + pre + b"nosuch.c\n@@ -1 +1 @@\n-secret\n+pwned\n"
    elif style == "garbage-names":
        # ... or in other lines tools print between file patches
        text = b"diff -ruN " + full + b" " + full + b"\nOnly in " + full + b": x\n--- " + pre + b"nosuch.c\n+++ " + pre + b"nosuch.c\n@@ -1 +1 @@\n-secret\n+pwned\n"
    else:
        text = b"--- " + q(full) + b"\n+++ " + q(inner) + b"\n@@ -1 +1 @@\n-secret\n+pwned\n"
    if rng.random() < 0.4:
        # the escaping file patch is not the last one of its patch file: another 'diff --git' block follows (a file patch
        # without hunks ends where the next block begins - every place that produces a file patch must check its names;
        # seeded C19-h)
        text += rng.choice([b"diff --git " + pre + b"d/keep " + pre + b"d/keep\nold mode 100644\nnew mode 100755\n",
                            b"diff --git " + pre + b"d/keep " + pre + b"d/keep\n--- " + pre + b"d/keep\n+++ " + pre + b"d/keep\n@@ -1 +1 @@\n-k\n+K\n"])
    series = b"ok.patch\nevil.patch" + (b" -p%d" % strip if strip != 1 or rng.random() < 0.5 else b"") + b"\n"
    okp = b"--- a/inside.txt\n+++ b/inside.txt\n@@ -1 +1 @@\n-secret\n+changed\n" if rng.random() < 0.6 else b"--- /dev/null\n+++ b/other\n@@ -0,0 +1 @@\n+x\n"
    if b"inside.txt" in text and b"changed" in okp:
        text = text.replace(b"-secret\n+pwned", b"-changed\n+pwned")
    w = {"files": {b"inside.txt": (b"secret\n", 0o644), b"d/keep": (b"k\n", 0o644)}, "dirs": [], "applied": None,
         "series": series, "patches": {b"ok.patch": okp, b"evil.patch": text}}
    return w, strip, style


def outer_snapshot(outer, inner_ws):
    res = {}
    for dirpath, dirnames, filenames in os.walk(outer):
        if os.path.abspath(dirpath) == os.path.abspath(inner_ws):
            dirnames[:] = []
            continue
        for n in dirnames + filenames:
            p = os.path.join(dirpath, n)
            st = os.lstat(p)
            data = open(p, "rb").read() if os.path.isfile(p) else None
            res[os.path.relpath(p, outer)] = (st.st_mode, st.st_ino, data)
    return res


def run_in_sentinel(ctx, w, cfg):
    """materialise w at <scratch>/c19-x/outer/l1/ws with sentinel files around it -> (result, problems)"""
    top = ws.fresh_dir("c19")
    outer = os.path.join(top, "outer")
    wsd = os.path.join(outer, "l1", "ws")
    os.makedirs(wsd)
    sent = {b"victim": b"secret\n", b"sent/victim": b"secret\n", b"l1/victim": b"secret\n", b"l1/sent/victim": b"secret\n",
            b"victim-\xe9": b"secret\n", b"l1/victim-\xe9": b"secret\n", b"sent/victim-\xe9": b"secret\n", b"l1/sent/victim-\xe9": b"secret\n"}
    for p, d in sent.items():
        os.makedirs(os.path.dirname(os.path.join(outer.encode(), p)), exist_ok=True)
        open(os.path.join(outer.encode(), p), "wb").write(d)
    # the workspace itself
    ws.write_tree(wsd, {k: v for k, v in w["files"].items()})
    os.makedirs(os.path.join(wsd, "patches"))
    for n, d in w["patches"].items():
        ws.write_tree(os.path.join(wsd, "patches"), {n: (d, None)})
    open(os.path.join(wsd, "series"), "wb").write(w["series"])
    before_out = outer_snapshot(outer, wsd)
    before_in = l3gen.canon_snapshot(ws.snapshot(wsd, skip=("patches",)))
    rc, out = ws.run_push(ctx.binary, wsd, l3gen.cfg_args(cfg), timeout=30)
    after_out = outer_snapshot(outer, wsd)
    after_in = l3gen.canon_snapshot(ws.snapshot(wsd, skip=("patches",)))
    probs = []
    if after_out != before_out:
        ch = [k for k in set(before_out) | set(after_out) if before_out.get(k) != after_out.get(k)]
        probs.append("files outside the working directory changed: %s" % sorted(ch)[:5])
    shutil.rmtree(top, ignore_errors=True)
    return rc, out, before_in, after_in, probs


def dangling_link_cases(ctx):
    """a name inside the tree that is a symbolic link to a missing file outside: creating 'that file' must replace the
    link, not create its target"""
    probs = []
    for th in (1, 2):
        top = ws.fresh_dir("c19l")
        outer = os.path.join(top, "outer")
        wsd = os.path.join(outer, "ws")
        os.makedirs(os.path.join(wsd, "patches"))
        os.makedirs(os.path.join(wsd, "sub"))
        os.symlink("../outside.txt", os.path.join(wsd, "link"))
        os.symlink("../../outside2.txt", os.path.join(wsd, "sub", "link2"))
        open(os.path.join(wsd, "patches", "p.patch"), "wb").write(
            b"--- /dev/null\n+++ b/link\n@@ -0,0 +1 @@\n+hello\n--- /dev/null\n+++ b/sub/link2\n@@ -0,0 +1 @@\n+hello\n")
        open(os.path.join(wsd, "series"), "wb").write(b"p.patch\n")
        before = outer_snapshot(outer, wsd)
        rc, out = ws.run_push(ctx.binary, wsd, ["-a", "-q", "--threads", str(th)], timeout=30)
        after = outer_snapshot(outer, wsd)
        if after != before:
            probs.append("threads=%d: written through a dangling symbolic link: %s" % (th, sorted(set(after) ^ set(before))[:4]))
        if rc not in (0, 1):
            probs.append("threads=%d: exit status %s" % (th, rc))
        shutil.rmtree(top, ignore_errors=True)
    ctx.coverage["dangling_link_runs"] = 2
    if probs:
        ctx.violation({"kind": "escapes-the-tree", "problems": probs})


def parser_cases(rng, n):
    cases = []
    for _ in range(n):
        name, t = evil_names(rng, b"/abs/outer")
        strip = rng.choice([0, 1, 2, 3])
        pre = rng.choice([b"", b"a/", b"a/b/", b"./a/", b"a//"])
        q = quote if rng.random() < 0.3 else (lambda x: x)
        full = pre + name
        form = rng.randrange(4)
        if form == 0:
            text = b"--- " + q(full) + b"\n+++ " + q(pre + b"ok") + b"\n@@ -1 +1 @@\n-a\n+b\n"
        elif form == 1:
            text = b"--- /dev/null\n+++ " + q(full) + b"\t2020-01-01\n@@ -0,0 +1 @@\n+b\n"
        elif form == 2:
            text = b"diff --git " + q(full) + b" " + q(full) + b"\nnew mode 100755\nold mode 100644\n"
        else:
            text = b"Index: " + full + b"\n--- " + full + b"\n+++ " + full + b"\n@@ -1 +1 @@\n-a\n+b\n"
        if rng.random() < 0.4:
            text += b"diff --git " + pre + b"ok " + pre + b"ok\nold mode 100644\nnew mode 100755\n"
        cases.append({"strip": strip, "data": text})
    return cases


def run(ctx):
    rng = ctx.rng
    thorough = ctx.tier == "thorough"
    hist = ctx.coverage.setdefault("input_histogram", collections.Counter())
    # (a) parser correspondence on the name generator
    pcs = parser_cases(rng, 6000 if thorough else 1200)
    lines = ["parse %d 0 %s" % (c["strip"], c["data"].hex()) for c in pcs]
    impl = ctx.impl(lines)
    model = ctx.model(lines)
    nbad = 0
    for c, a, b in zip(pcs, impl, model):
        hist["parser:" + (a.split()[1] if a.startswith("ERR") else "accepted")] += 1
        if a != b:
            nbad += 1
            if nbad <= 2:
                ctx.violation({"kind": "correspondence-mismatch", "correspondence": "parser model vs parse_patch on a name", "strip": c["strip"],
                               "data": c["data"].decode("latin-1"), "impl": a[:300], "model": b[:300]}, no_input=True)
        if a.startswith("OK"):
            # accepted: no name may contain a '..' piece or be absolute
            import re
            for m in re.finditer(r"(?:old|new)=([0-9a-f]+)", a):
                nm = bytes.fromhex(m.group(1))
                if nm.startswith(b"/") or b".." in nm.split(b"/") or nm == b"":
                    ctx.violation({"kind": "unsafe-name-accepted", "strip": c["strip"], "data": c["data"].decode("latin-1"), "name": nm.decode("latin-1")})
    ctx.coverage["evaluations"] = ctx.coverage.get("evaluations", 0) + len(pcs)
    ctx.coverage["traces_validated_against_impl"] = ctx.coverage.get("traces_validated_against_impl", 0) + len(pcs)
    # (b) pushes inside a sentinel directory
    n = 500 if thorough else 100
    cases, reals = [], []
    bad = 0
    for _ in range(n):
        top_guess = os.path.join(ws.SCRATCH, "c19-abs")      # absolute names point at a fixed sentinel location
        w, strip, style = gen_case(rng, os.path.join(top_guess, "outer").encode())
        cfg = l3common.rand_cfg(rng, threads=(1, 1, 2, 4))
        rc, out, before_in, after_in, probs = run_in_sentinel(ctx, w, cfg)
        hist["push:" + style] += 1
        hist["push:exit=%s" % rc] += 1
        # does the evil patch parse? (implementation's own answer) - if it is refused the push must be clean
        ans = ctx.impl(["parse %d 0 %s" % (strip, w["patches"][b"evil.patch"].hex())])[0]
        if ans.startswith("ERR"):
            hist["push:refused-" + ans.split()[1]] += 1
            if rc != 1:
                probs.append("patch with an unusable name (%s) but exit status %s" % (ans, rc))
            if after_in != before_in:
                probs.append("the push was refused but the working tree changed")
        if rc not in (0, 1):
            probs.append("exit status %s: %s" % (rc, out[-200:].decode("latin-1")))
        cases.append((w, cfg))
        reals.append("EXIT %s | %s" % (rc, after_in))
        if probs:
            bad += 1
            if bad <= 2:
                ctx.violation({"kind": "escapes-the-tree", "problems": probs, "workspace": l3common.ws_json(w), "cfg": l3common.cfg_json(cfg),
                               "args": l3gen.cfg_args(cfg), "output": out[-300:].decode("latin-1")})
    dangling_link_cases(ctx)
    l3common.compare(ctx, cases, "pushes with escaping names", real_results=reals)
    # the absolute-path sentinel must not have appeared
    if os.path.exists(os.path.join(ws.SCRATCH, "c19-abs")):
        ctx.violation({"kind": "escapes-the-tree", "problems": ["an absolute name was followed: %s exists" % os.path.join(ws.SCRATCH, "c19-abs")]})
        shutil.rmtree(os.path.join(ws.SCRATCH, "c19-abs"), ignore_errors=True)
    l3common.finish(ctx, "names escaping by '..' (before/after/inside the stripped part), absolute and '//' names, quoted octal escapes, "
                         "'..x'/'...' look-alikes; in ---, +++, diff --git, Index:, rename lines; strip 0-3; create/modify/delete/"
                         "mode/rename styles; working directory two levels below a sentinel directory.")


def replay(ctx, payload):
    if "workspace" not in payload:
        return run(ctx)
    w = l3common.ws_from_json(payload["workspace"])
    cfg = l3common.cfg_from_json(payload["cfg"])
    rc, out, before_in, after_in, probs = run_in_sentinel(ctx, w, cfg)
    if probs:
        ctx.violation({"kind": "escapes-the-tree", "problems": probs, "workspace": payload["workspace"], "cfg": payload["cfg"]})
    l3common.compare(ctx, [(w, cfg)], "replay", real_results=["EXIT %s | %s" % (rc, after_in)])
    l3common.finish(ctx, "replay")
