"""System-call traces of the real binary: which write-class operations happened, on which paths."""
import os
import re
import subprocess

import rqlib

WRITE_FLAGS = ("O_WRONLY", "O_RDWR", "O_CREAT", "O_TRUNC", "O_APPEND")
CALLS = "openat,open,creat,unlink,unlinkat,mkdir,mkdirat,rmdir,rename,renameat,renameat2,chmod,fchmod,fchmodat,link,linkat,symlink,symlinkat,truncate,ftruncate,utimensat,utime,utimes,futimesat,chown,fchown,fchownat,lchown,mknod,mknodat,setxattr,fsetxattr"

LINE = re.compile(r"^(?:\d+\s+)?(\w+)\((.*)\)\s+=\s+(-?\d+)(.*)$")


def trace(binary, cwd, args, timeout=60, extra_strace=None, env=None):
    """-> (exit status, [(syscall, args string, return value)])"""
    out = os.path.join(cwd, "..", os.path.basename(cwd) + ".strace")
    cmd = ["strace", "-f", "-qq", "-o", out, "-e", "trace=" + CALLS] + (extra_strace or []) + [binary, "push"] + list(args)
    e = dict(rqlib.ENV)
    e.pop("RUSTFLAGS", None)
    if env:
        e.update(env)
    try:
        p = subprocess.run(cmd, cwd=cwd, env=e, stdout=subprocess.PIPE, stderr=subprocess.STDOUT, timeout=timeout)
        rc = p.returncode
        output = p.stdout
    except subprocess.TimeoutExpired:
        rc, output = "timeout", b""
    calls = []
    try:
        for l in open(out, errors="replace"):
            m = LINE.match(l.strip())
            if m:
                calls.append((m.group(1), m.group(2), int(m.group(3))))
        os.unlink(out)
    except OSError:
        pass
    return rc, calls, output


def write_class(calls, cwd=None):
    """the successful write-class calls: [(syscall, path-ish)]"""
    res = []
    for name, args, ret in calls:
        if ret < 0:
            continue
        if name in ("openat", "open", "creat"):
            if name == "creat" or any(f in args for f in WRITE_FLAGS):
                m = re.search(r'"((?:[^"\\]|\\.)*)"', args)
                path = m.group(1) if m else args
                if path.startswith(("/dev/", "/proc/", "/sys/")):
                    continue
                res.append((name, path))
        elif name in ("fchmod", "ftruncate", "fchown", "fsetxattr"):
            res.append((name, args))
        else:
            m = re.findall(r'"((?:[^"\\]|\\.)*)"', args)
            res.append((name, " ".join(m)))
    return res
