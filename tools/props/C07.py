"""C07 - file names related through any patch are handled by the same worker.

Theorems: coq/Properties/C07.v (unbounded: any sequence of pairs, any thread count > 0).
Tie to the code: FilenameDistributor of /repo's working tree (in-process, #[path] include) vs the
extracted model on the same add sequences, plus the proved oracle classes_ok on the
implementation's map.
"""
import itertools
import os

from props import common

ID = "C07"
NEEDS_BINARY = True
TRUSTED_BASE = common.BASE_TRUSTED + [
    "C07: HashMap iteration order does not matter (the map is compared sorted by name)",
]


def encode(c):
    ops = c["ops"]
    return "dist %d %d %s" % (c["threads"], len(ops), " ".join("%d %d" % (a, b) for a, b in ops))


def oracle_line(c, impl_out):
    if not impl_out.startswith("OK"):
        return "distcheck %d 0 1 0 0" % 0  # panic/other: oracle is FALSE (threads=0 makes classes_ok false)
    pairs = [p.split(":") for p in impl_out.split()[1:]]
    ops = c["ops"]
    return "distcheck %d %d %s %d %s" % (c["threads"], len(ops), " ".join("%d %d" % (a, b) for a, b in ops),
                                         len(pairs), " ".join("%s %s" % (a, t) for a, t in pairs))


def shrink_cands(c):
    ops = c["ops"]
    for i in range(len(ops)):
        yield {"threads": c["threads"], "ops": ops[:i] + ops[i + 1:]}
    if c["threads"] > 2:
        yield {"threads": c["threads"] - 1, "ops": ops}
    # rename names downwards
    names = sorted({x for op in ops for x in op if x >= 0})
    for k, n in enumerate(names):
        if n != k:
            yield {"threads": c["threads"], "ops": [tuple(k if x == n else x for x in op) for op in ops]}
            break


def describe(c, out):
    comps = len({t for t in (p.split(":")[1] for p in out.split()[1:])}) if out.startswith("OK") else -1
    yield "ops=%d" % len(c["ops"])
    yield "threads=%d" % c["threads"]
    yield "pairs=%d" % sum(1 for a, b in c["ops"] if b >= 0)
    yield "distinct_threads_used=%d" % comps


def trivial(c, out):
    return not any(b >= 0 for a, b in c["ops"])


def respell_names(rng, w):
    """every file moves into src/ and each mention spells that path in one of several equal ways (src/f, src//f,
    src/./f): equal names for the drivers and for the file system, so one name for the distributor as well"""
    w["files"] = {b"src/" + k: v for k, v in w["files"].items()}
    for pn, text in list(w["patches"].items()):
        out = []
        for l in text.split(b"\n"):
            for pre in (b"--- a/", b"+++ b/"):
                if l.startswith(pre):
                    l = pre + rng.choice([b"src/", b"src/", b"src//", b"src/./", b"src/.//", b"src///"]) + l[len(pre):]
                    break
            out.append(l)
        w["patches"][pn] = b"\n".join(out)


def run(ctx):
    rng = ctx.rng
    thorough = ctx.tier == "thorough"
    # corpus: minimised past failures first
    corpus = [
        {"threads": 4, "ops": [(0, 1), (2, 1), (2, 1)]},                    # pre-fix witness (Ph)
        {"threads": 4, "ops": [(2, 4), (5, -1), (3, -1), (0, -1), (5, 1), (0, 1), (0, 2), (3, 1)]},  # needs >= 8 adds
        {"threads": 16, "ops": [(0, 1), (2, 3), (1, 2)]},
        {"threads": 1, "ops": [(0, -1)]},
        {"threads": 3, "ops": []},
    ]
    if not os.environ.get("RQ_NO_CORPUS"):
        common.differential(ctx, corpus, encode, oracle_line, None, shrink_cands, "corpus", trivial, describe)
    # bounded-exhaustive: all sequences of <= 4 ops over 4 names (b in names or none), two thread counts
    names = range(4)
    alph = [(a, b) for a in names for b in list(names) + [-1] if a != b]
    ex = []
    maxlen = 4 if thorough else 3
    for n in range(1, maxlen + 1):
        for ops in itertools.product(alph, repeat=n):
            ex.append({"threads": 3, "ops": list(ops)})
    common.differential(ctx, ex, encode, oracle_line, None, shrink_cands, "exhaustive<=%d ops over 4 names" % maxlen,
                        trivial, describe)
    # random long sequences: chains that are merged late, repeated pairs, many names
    rnd = []
    for _ in range(20000 if thorough else 3000):
        k = rng.choice([6, 8, 10, 12])
        n = rng.randint(5, 30)
        ops = []
        for _ in range(n):
            a = rng.randrange(k)
            if rng.random() < 0.7:
                b = rng.randrange(k)
                ops.append((a, b if b != a else -1))
            else:
                ops.append((a, -1))
        rnd.append({"threads": rng.choice([1, 2, 3, 4, 5, 7, 8, 16]), "ops": ops})
    common.differential(ctx, rnd, encode, oracle_line, None, shrink_cands, "random 5-30 ops over 6-12 names",
                        trivial, describe)
    # end to end: the names the drivers hand to the distributor.  Chain workspaces (file patches whose old and new
    # names differ, linking real files through names that do not exist; every hunk depends on the previous change
    # of its file): a file patch on the wrong worker sees the pristine file and fails, so --threads N must equal
    # --threads 1
    from props import C06, l3gen, l3common, ws
    nchain = 60 if thorough else 14
    for _ in range(nchain):
        w = C06.gen_chain(rng) if rng.random() < 0.6 else C06.gen_chain_stale(rng)
        if rng.random() < 0.5:
            respell_names(rng, w)
            ctx.coverage["chain_pushes_with_respelled_names"] = ctx.coverage.get("chain_pushes_with_respelled_names", 0) + 1
        cfg = l3gen.default_cfg()
        r1, _, _ = l3gen.run_real(ctx.binary, w, cfg)
        for th in rng.sample([2, 3, 4, 5, 8, 16], 2):
            c2 = dict(cfg)
            c2["threads"] = th
            r2, out, _ = l3gen.run_real(ctx.binary, w, c2)
            ctx.coverage["chain_pushes"] = ctx.coverage.get("chain_pushes", 0) + 1
            if r2 != r1:
                a, b = r1.split(" | "), r2.split(" | ")
                ctx.violation({"kind": "related-names-on-different-workers", "threads": th, "workspace": l3common.ws_json(w),
                               "only_sequential": [x[:160] for x in a if x not in b][:4], "only_parallel": [x[:160] for x in b if x not in a][:4],
                               "output": out[-300:].decode("latin-1")})
                break
    ws.cleanup_all()
    ctx.coverage["exhaustive"] = False
    common.finish(ctx, "add-sequences (name, optional related name): corpus + all sequences of <=%d ops over 4 names "
                       "+ seeded random sequences of 5-30 ops over 6-12 names, thread counts 1..16; distinct = distinct "
                       "case lines, non-trivial = at least one related pair" % maxlen)


def replay(ctx, payload):
    c = payload.get("case")
    if not c:
        return run(ctx)
    c["ops"] = [tuple(o) for o in c["ops"]]
    common.differential(ctx, [c], encode, oracle_line, None, None, "replay", trivial, describe)
    common.finish(ctx, "replay of one recorded case")
