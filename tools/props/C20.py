"""C20 - raising the fuzz limit never changes an application that already succeeded.
Theorems: coq/Properties/C20.v.  Metamorphic check on the implementation: every case is run with
limits F < F'; when all hunks applied under F, file state and hunk reports must be identical under F'.
(Series level: tree/metadata comparison through the binary, see DESIGN.md section 5.)"""
import copy

from props import common, l1common, l1gen

ID = "C20"
NEEDS_BINARY = True
TRUSTED_BASE = common.BASE_TRUSTED + [
    "C20: series-level statement (whole push) follows from the file-level theorem because --fuzz only reaches FilePatch::apply; the binary-level comparison is part of the tree-level checks",
]


def with_fuzz(c, f):
    d = copy.deepcopy(c)
    for p in d["patches"]:
        p["fuzz"] = f
    return d


def mono_problem(ctx, c, lo, hi):
    a, b = ctx.impl([l1gen.encode(with_fuzz(c, lo)), l1gen.encode(with_fuzz(c, hi))])
    pa, pb = l1gen.parse_output(a), l1gen.parse_output(b)
    if pa is None:
        return None
    if not all(rep["ok"] for _, rep in pa["applies"]):
        return None
    if pb is None:
        return "limit %d: ok; limit %d: %s" % (lo, hi, b[:60])
    for (sa, ra), (sb, rb) in zip(pa["applies"], pb["applies"]):
        if sa != sb or not rb["ok"]:
            return "limit %d gives %r, limit %d gives %r ok=%s" % (lo, sa, hi, sb, rb["ok"])
        ha = [h[:5] + h[5:] for h in ra["hunks"]]
        if ra["hunks"] != rb["hunks"]:
            # creations/deletions carry the limit in their single report: compare without the fuzz field
            if [h[:5] for h in ra["hunks"]] != [h[:5] for h in rb["hunks"]]:
                return "hunk reports differ: %r vs %r" % (ra["hunks"], rb["hunks"])
    return None


def run(ctx):
    thorough = ctx.tier == "thorough"
    l1common.run(ctx, ID, None, "Metamorphic check: each case is additionally run under pairs of limits F < F' "
                                "in 0..5 and compared when the run under F applied completely.")
    rng = ctx.rng
    cases = l1common.corpus()
    for _ in range(4000 if thorough else 700):
        cases.append(l1gen.gen_modify(rng, fuzz_max=4))
    for _ in range(2000 if thorough else 300):
        cases.append(l1gen.gen_random_hunks(rng))
    for _ in range(100):
        cases.append(l1gen.gen_create_delete(rng))
    pairs = [(0, 1), (0, 3), (1, 2), (1, 4), (2, 3), (2, 5), (0, 5)]
    lines, meta = [], []
    for c in cases:
        lo, hi = rng.choice(pairs)
        lines.append(l1gen.encode(with_fuzz(c, lo)))
        lines.append(l1gen.encode(with_fuzz(c, hi)))
        meta.append((c, lo, hi))
    outs = ctx.impl(lines)
    mouts = ctx.model(lines)
    bad = 0
    compared = 0
    import rqlib
    for k, (c, lo, hi) in enumerate(meta):
        a, b = outs[2 * k], outs[2 * k + 1]
        pa = l1gen.parse_output(a)
        if pa is not None and all(rep["ok"] for _, rep in pa["applies"]) and any(h[0] == "A" for _, rep in pa["applies"] for h in rep["hunks"]):
            compared += 1
        why = mono_problem_from(a, b, lo, hi)
        if why:
            bad += 1
            if bad <= 2:
                small = rqlib.shrink(c, lambda x: mono_problem(ctx, x, lo, hi) is not None, l1gen.shrink_cands)
                ctx.violation({"kind": "fuzz-limit-changes-result", "case": small, "limits": [lo, hi],
                               "case_line": l1gen.encode(with_fuzz(small, lo)), "case_line_hi": l1gen.encode(with_fuzz(small, hi)),
                               "why": mono_problem(ctx, small, lo, hi) or why})
        for j in (2 * k, 2 * k + 1):
            if outs[j] != mouts[j] and bad == 0:
                ctx.violation({"kind": "correspondence-mismatch", "case_line": lines[j], "implementation": outs[j],
                               "model": mouts[j]}, no_input=True)
    push_level(ctx, rng, 400 if thorough else 60)
    ctx.coverage["evaluations"] = ctx.coverage.get("evaluations", 0) + len(lines)
    ctx.coverage["metamorphic_pairs"] = len(meta)
    ctx.coverage["metamorphic_pairs_compared_nontrivially"] = compared
    ctx.coverage["traces_validated_against_impl"] = ctx.coverage.get("traces_validated_against_impl", 0) + len(lines)


def push_level(ctx, rng, n):
    """the statement for whole pushes, on the binary: a series that applies completely under limit F leaves the same
    tree - every file, .pc with its backups and applied-patches included - and the same exit status under F' > F,
    in every backup mode and thread count"""
    from props import l3common, l3gen, ws
    bad = done = 0
    body = b"".join(b"l%d\n" % i for i in range(1, 10))
    need1 = {"files": {b"f": (body, 0o644)}, "dirs": [], "applied": None, "series": b"p.patch\n",
             "patches": {b"p.patch": b"--- a/f\n+++ b/f\n@@ -3,5 +3,5 @@\n WRONG\n l4\n-l5\n+L5\n l6\n l7\n"}}
    need2 = {"files": {b"f": (body, 0o644)}, "dirs": [], "applied": None, "series": b"p.patch\n",
             "patches": {b"p.patch": b"--- a/f\n+++ b/f\n@@ -2,7 +2,7 @@\n WRONG\n WRONG\n l4\n-l5\n+L5\n l6\n WRONG\n WRONG\n"}}
    fixed = [(need1, 1, 2), (need1, 1, 255), (need1, 1, 256), (need1, 2, 1000), (need1, 1, 65536), (need2, 2, 3), (need2, 2, 256),
             (need2, 3, 4294967296)]
    for k in range(n + len(fixed)):
        if k < len(fixed):
            w, lo, hi = fixed[k]
            cfg = l3gen.default_cfg()
            cfg["threads"] = 1 + k % 2
        else:
            w = l3gen.gen_workspace(rng, fail_prob=0.15)
            cfg = l3common.rand_cfg(rng, threads=(1, 1, 2, 4))
            lo, hi = rng.choice([(0, 1), (0, 2), (0, 3), (1, 2), (1, 3), (2, 5), (0, 256), (2, 300), (1, 70000)])
        c1 = dict(cfg); c1["fuzz"] = lo
        c2 = dict(cfg); c2["fuzz"] = hi
        r1, out1, _ = l3gen.run_real(ctx.binary, w, c1)
        if l3common.exit_of(r1) != "0":
            continue
        done += 1
        r2, out2, _ = l3gen.run_real(ctx.binary, w, c2)
        if r1 != r2:
            bad += 1
            if bad <= 2:
                a, b = r1.split(" | "), r2.split(" | ")
                ctx.violation({"kind": "fuzz-limit-changes-push", "limits": [lo, hi], "workspace": l3common.ws_json(w), "cfg": l3common.cfg_json(cfg),
                               "args_lo": l3gen.cfg_args(c1), "args_hi": l3gen.cfg_args(c2),
                               "only_lo": [x[:160] for x in a if x not in b][:4], "only_hi": [x[:160] for x in b if x not in a][:4]})
    ws.cleanup_all()
    ctx.coverage["push_level_pairs_compared"] = done
    ctx.coverage["evaluations"] = ctx.coverage.get("evaluations", 0) + 2 * done


def mono_problem_from(a, b, lo, hi):
    pa, pb = l1gen.parse_output(a), l1gen.parse_output(b)
    if pa is None or not all(rep["ok"] for _, rep in pa["applies"]):
        return None
    if pb is None:
        return "limit %d: ok; limit %d: %s" % (lo, hi, b[:60])
    for (sa, ra), (sb, rb) in zip(pa["applies"], pb["applies"]):
        if sa != sb or not rb["ok"]:
            return "limit %d gives %r, limit %d gives %r ok=%s" % (lo, sa, hi, sb, rb["ok"])
        if [h[:5] for h in ra["hunks"]] != [h[:5] for h in rb["hunks"]]:
            return "hunk reports differ: %r vs %r" % (ra["hunks"], rb["hunks"])
        for ha, hb in zip(ra["hunks"], rb["hunks"]):
            if ha[0] == "A" and len(ra["hunks"]) > 1 and ha != hb:
                return "hunk reports differ: %r vs %r" % (ha, hb)
    return None


def replay(ctx, payload):
    c = payload.get("case")
    if not c or "limits" not in payload or "workspace" in payload:
        return run(ctx)
    lo, hi = payload["limits"]
    why = mono_problem(ctx, c, lo, hi)
    ctx.coverage["evaluations"] = 2
    ctx.coverage["distinct_nontrivial"] = 2
    ctx.coverage["rule"] = "replay of one recorded pair"
    ctx.coverage["samples"] = [{"case": l1gen.encode(with_fuzz(c, lo))}]
    if why:
        ctx.violation({"kind": "fuzz-limit-changes-result", "case": c, "limits": [lo, hi], "why": why})
