"""C13 - reject files hold exactly the failed hunks of the failing patch.
Theorems: coq/Properties/C13.v.  Tie: L3 model vs binary, byte for byte including every *.rej (threads
1/2/4).  Statement checks on the binary + the implementation's own parser (harness `parse`): a push that
succeeds leaves no reject; after a push that stops at patch P every *.rej belongs to a file P names,
parses as a patch for that file, and its hunks are - in order, with the same line numbers and line
content - hunks of P for that file; there is one reject file per file however many file patches P has
for it; a file of P all of whose hunks applied has no reject; re-running with more threads gives the
same reject files."""
import collections
import os
import re

from props import common, l3common, l3gen, ws

ID = "C13"
NEEDS_BINARY = True
TRUSTED_BASE = l3common.TRUSTED_L3 + ["the reject files are read back with the implementation's own parser (harness command `parse`), whose totality and hunk round trip are C11/C12"]

FP = re.compile(r"\{(\w) old=(\S+) new=(\S+) ren(\d) op(\S+) np(\S+) oh=(\S+) nh=(\S+) hunks=(\d+)((?: <[^>]*>)*)\}")
HK = re.compile(r"<(\d+) (\d+) (\d+) (\d+) fn=(\S*) R\[([^\]]*)\] A\[([^\]]*)\]>")


def parse_dump(out):
    """-> list of (old, new, [hunk tuples]) or None"""
    if not out.startswith("OK "):
        return None
    res = []
    for m in FP.finditer(out):
        # a hunk = (old line, new line, function, old lines, new lines); the counted context (prefix, suffix)
        # depends on how the writer interleaves - and + lines and is not part of the hunk's meaning (same_hunk
        # in WriterProofs.v)
        hunks = [(h.group(1), h.group(2), h.group(5), h.group(6), h.group(7)) for h in HK.finditer(m.group(10))]
        # names are compared as paths ("dir/./h.txt" and "dir/h.txt" are one file, and the reject is named after the path)
        norm = lambda hx: None if hx == "/" else os.path.normpath(bytes.fromhex(hx))
        res.append((norm(m.group(2)), norm(m.group(3)), hunks))
    return res


def strip_of(w, name):
    for l in w["series"].split(b"\n"):
        t = l.split()
        if t and t[0] == name:
            opts = t[1:]
            i = 0
            while i < len(opts):
                o = opts[i]
                if o.startswith(b"-p") and len(o) > 2:
                    return int(o[2:])
                if o == b"-p" or o == b"--strip":
                    return int(opts[i + 1])
                if o.startswith(b"--strip="):
                    return int(o[8:])
                i += 1
            return 1
    return 1


def is_subsequence(small, big):
    it = iter(big)
    return all(any(x == y for y in it) for x in small)


def statement_problems(ctx, w, cfg, real):
    probs = []
    names = l3common.series_names(w)
    rc = l3common.exit_of(real)
    rej = {}
    for p in l3common.rejects(real):
        f = p.split()
        path = b"/".join(bytes.fromhex(c) for c in f[1].split("/"))
        rej[path] = bytes.fromhex(f[3]) if f[3] != "-" else b""
    if rc == "0":
        if rej:
            probs.append("reject files after a successful push: %r" % sorted(rej))
        return probs
    if not rej:
        return probs
    k = len(l3common.applied_patches(real))
    if k >= len(names):
        return ["reject files but every patch is recorded as applied"]
    P = names[k]
    out = ctx.impl(["parse %d 0 %s" % (strip_of(w, P), w["patches"][P].hex() or "-")])[0]
    fps = parse_dump(out)
    if fps is None:
        return ["the failing patch %r does not parse (%s) but reject files exist" % (P, out[:40])]
    for path, data in rej.items():
        target = os.path.normpath(path[:-4])
        mine = [hk for (o, n, hks) in fps if target in (o, n) for hk in hks]
        if not any(target in (o, n) for (o, n, _) in fps):
            probs.append("%r: patch %r has no file patch for %r" % (path, P, target))
            continue
        r = parse_dump(ctx.impl(["parse 0 0 %s" % (data.hex() or "-")])[0])
        if r is None or not r:
            probs.append("%r does not parse as a patch" % path)
            continue
        got = []
        for (o, n, hks) in r:
            if target not in (o, n):
                probs.append("%r contains a file patch for %r / %r" % (path, o, n))
            got += hks
        if not got:
            probs.append("%r holds no hunk" % path)
        if not is_subsequence(got, mine):
            probs.append("%r: its hunks are not hunks of %r for that file, in order" % (path, P))
    return probs


def all_parse(ctx, w):
    """the parallel driver reads every patch of the range before it applies any and refuses the whole push when one
    does not parse (C17); the sequential one only gets that far if nothing failed before - C06 exempts such series and
    so does the comparison of thread counts here"""
    from props.C06 import file_patches
    return file_patches(ctx, w) is not None


def run(ctx):
    rng = ctx.rng
    thorough = ctx.tier == "thorough"
    n = 900 if thorough else 150
    cases = []
    for _ in range(n):
        w = l3gen.gen_workspace(rng, fail_prob=0.8)
        cfg = l3common.rand_cfg(rng, threads=(1, 1, 2, 4))
        cfg["fuzz"] = rng.choice([0, 0, 1, 2])
        cases.append((w, cfg))
    # reject files left by an earlier attempt (longer than the new ones) must be replaced, not written over:
    # compared with the model byte for byte (the statement checks below would take a stale reject of a file this
    # push does not reject for a new one, so these cases go through the model comparison only)
    stale = []
    for _ in range(n // 5):
        w = l3gen.gen_workspace(rng, fail_prob=1.0)
        junk = b"--- stale\n+++ stale\n" + b"@@ -1 +1 @@\n-old reject line\n+old reject line\n" * 40
        for k in list(w["files"]):
            if not k.startswith(b"store/") and rng.random() < 0.8:
                w["files"][k + b".rej"] = (junk, 0o644)
        stale.append((w, l3common.rand_cfg(rng, threads=(1, 2))))
    l3common.compare(ctx, stale, "failing series over stale reject files")
    ctx.coverage["stale_reject_cases"] = len(stale)
    cases = corpus() + cases
    reals = l3common.compare(ctx, cases, "failing series")
    bad = 0
    hist = ctx.coverage.setdefault("input_histogram", collections.Counter())
    for (w, cfg), r in zip(cases, reals):
        nrej = len(l3common.rejects(r))
        hist["rejects=%d" % min(nrej, 4)] += 1
        probs = statement_problems(ctx, w, cfg, r)
        # the same push with another thread count: same reject files
        if nrej and cfg["threads"] == 1 and rng.random() < 0.5 and all_parse(ctx, w):
            c2 = dict(cfg)
            c2["threads"] = rng.choice([2, 4, 8])
            r2, _, _ = l3gen.run_real(ctx.binary, w, c2)
            if l3common.rejects(r2) != l3common.rejects(r):
                probs.append("threads=%d gives different reject files than threads=1" % c2["threads"])
            hist["thread-count comparison"] += 1
        if probs:
            bad += 1
            if bad <= 2:
                ctx.violation({"kind": "rejects-not-exact", "problems": probs[:6], "workspace": l3common.ws_json(w),
                               "cfg": l3common.cfg_json(cfg), "args": l3gen.cfg_args(cfg)})
    ctx.coverage["statement_checks"] = len(cases)
    l3common.finish(ctx, "random workspaces, 80% with 1-2 corrupted hunk lines in a random patch (multi-file patches, several file "
                         "patches for one file, creations over existing files, deletions that do not match, missing files, renames), "
                         "fuzz 0-2, threads 1/2/4/8, plus a corpus for each failure reason. distinct = distinct (workspace, config).")


def corpus():
    F = lambda d, m=0o644: (d, m)
    base = l3gen.default_cfg()
    out = []
    mk = lambda files, patch, series=b"p.patch\n": ({"files": files, "dirs": [], "applied": None, "series": series, "patches": {b"p.patch": patch}}, dict(base))
    body = b"a\nb\nc\nd\ne\nf\ng\nh\n"
    # two failing file patches for the same file (was: only one survived)
    out.append(mk({b"f": F(body)}, b"--- a/f\n+++ b/f\n@@ -1,2 +1,2 @@\n a\n-X\n+B\n--- a/f\n+++ b/f\n@@ -7,2 +7,2 @@\n g\n-Y\n+H\n"))
    # first hunk applies, second fails, third applies
    out.append(mk({b"f": F(body)}, b"--- a/f\n+++ b/f\n@@ -1,2 +1,2 @@\n a\n-b\n+B\n@@ -4,2 +4,2 @@\n d\n-X\n+E\n@@ -7,2 +7,2 @@\n g\n-h\n+H\n"))
    # missing file, create over existing, delete mismatch, in one patch together with a file that applies
    out.append(mk({b"f": F(body), b"g": F(b"x\n")},
                  b"--- a/f\n+++ b/f\n@@ -1,2 +1,2 @@\n a\n-b\n+B\n--- a/nosuch\n+++ b/nosuch\n@@ -1 +1 @@\n-q\n+r\n"
                  b"--- /dev/null\n+++ b/g\n@@ -0,0 +1 @@\n+new\n--- a/g\n+++ /dev/null\n@@ -1 +0,0 @@\n-other\n"))
    # misordered hunks
    out.append(mk({b"f": F(body)}, b"--- a/f\n+++ b/f\n@@ -6,2 +6,2 @@\n f\n-g\n+G\n@@ -2,2 +2,2 @@\n b\n-c\n+C\n"))
    # names that are not UTF-8: the reject is <name>.rej byte for byte (was: the extension went through to_string_lossy)
    out.append(mk({b"f.\xff": F(body), b"d/\xe9t\xe9.c": F(body)},
                  b'--- "a/f.\\377"\n+++ "b/f.\\377"\n@@ -1,2 +1,2 @@\n a\n-X\n+B\n'
                  b'--- "a/d/\\351t\\351.c"\n+++ "b/d/\\351t\\351.c"\n@@ -1,2 +1,2 @@\n a\n-X\n+B\n'))
    # reject of a file in a directory that this push creates (was: bypassed) / that this push empties
    w = {"files": {b"g": F(b"x\n")}, "dirs": [], "applied": None, "series": b"p1.patch\np2.patch\n",
         "patches": {b"p1.patch": b"--- /dev/null\n+++ b/d/x\n@@ -0,0 +1 @@\n+x\n", b"p2.patch": b"--- a/d/y\n+++ b/d/y\n@@ -1 +1 @@\n-q\n+r\n"}}
    out.append((w, dict(base)))
    w = {"files": {b"d/x": F(b"x\n")}, "dirs": [], "applied": None, "series": b"p1.patch\np2.patch\n",
         "patches": {b"p1.patch": b"--- a/d/x\n+++ /dev/null\n@@ -1 +0,0 @@\n-x\n", b"p2.patch": b"--- a/d/y\n+++ b/d/y\n@@ -1 +1 @@\n-q\n+r\n"}}
    out.append((w, dict(base)))
    # a failing file in a directory that does not exist (its reject is bypassed) before / after / between other
    # failing files whose rejects must still be written
    miss = b"--- a/nodir/x\n+++ b/nodir/x\n@@ -1 +1 @@\n-q\n+r\n"
    bad_f = b"--- a/f\n+++ b/f\n@@ -1,2 +1,2 @@\n a\n-X\n+B\n"
    bad_g = b"--- a/keep/g\n+++ b/keep/g\n@@ -1 +1 @@\n-nope\n+y\n"
    for order in ((bad_f, miss, bad_g), (miss, bad_f, bad_g), (bad_f, bad_g, miss)):
        out.append(mk({b"f": F(body), b"keep/g": F(b"x\n")}, b"".join(order)))
    # zero-context hunks whose two sides sit at different lines: a failing pure deletion after a hunk that added lines,
    # and a failing pure insertion after a hunk that removed lines (line numbers of the empty side must survive)
    out.append(mk({b"f": F(body)}, b"--- a/f\n+++ b/f\n@@ -1,0 +2,2 @@\n+n1\n+n2\n@@ -5,2 +7,0 @@\n-X\n-Y\n"))
    out.append(mk({b"f": F(body)}, b"--- a/f\n+++ b/f\n@@ -2,2 +1,0 @@\n-b\n-c\n@@ -6,0 +5,2 @@\n+n1\n+n2\n@@ -7 +6 @@\n-NOPE\n+G\n"))
    # names with spaces, a quote and a backslash: the reject must name the same file when it is read back (seeded C13-i:
    # spaces written unquoted, so "docs dir/read me.txt.rej" read back as a patch for "docs")
    out.append(mk({b"docs dir/read me.txt": F(body), b'we"ird\\name': F(body)},
                  b'--- "a/docs dir/read me.txt"\n+++ "b/docs dir/read me.txt"\n@@ -1,2 +1,2 @@\n a\n-X\n+B\n'
                  b'--- "a/we\\"ird\\\\name"\n+++ "b/we\\"ird\\\\name"\n@@ -1,2 +1,2 @@\n a\n-X\n+B\n'))
    # two failing sections for one file with other failing files between them (seeded C13-j: only the reject rendered
    # last was looked at when a second section for a file came, so a.rej was written twice and kept one hunk)
    sec = lambda n, at, bad: b"--- a/%s\n+++ b/%s\n@@ -%d,2 +%d,2 @@\n %s\n-%s\n+NEW\n" % (n, n, at, at, body.split(b"\n")[at - 1], bad)
    out.append(mk({b"a.txt": F(body), b"b.txt": F(body), b"c.txt": F(body)},
                  sec(b"a.txt", 1, b"X") + sec(b"b.txt", 3, b"Y") + sec(b"c.txt", 5, b"Z") + sec(b"a.txt", 7, b"W")))
    out.append(mk({b"a.txt": F(body), b"b.txt": F(body)},
                  sec(b"a.txt", 1, b"X") + sec(b"b.txt", 3, b"Y") + sec(b"a.txt", 4, b"V") + sec(b"b.txt", 6, b"U") + sec(b"a.txt", 7, b"W")))
    # reversed entry, -p0, quoted name
    out.append(mk({b"f": F(body)}, b"--- f\n+++ f\n@@ -1,2 +1,2 @@\n a\n-X\n+B\n", b"p.patch -p0 -R\n"))
    for w, c in list(out):
        c2 = dict(c)
        c2["threads"] = 4
        out.append((w, c2))
    return out


def replay(ctx, payload):
    if "workspace" not in payload:
        return run(ctx)
    w = l3common.ws_from_json(payload["workspace"])
    cfg = l3common.cfg_from_json(payload["cfg"])
    reals = l3common.compare(ctx, [(w, cfg)], "replay")
    probs = statement_problems(ctx, w, cfg, reals[0])
    if probs:
        ctx.violation({"kind": "rejects-not-exact", "problems": probs, "workspace": payload["workspace"], "cfg": payload["cfg"]})
    l3common.finish(ctx, "replay")
