"""C10 - --dry-run writes nothing and predicts the real outcome.
Theorems: coq/Properties/C10.v.  Tie: model vs binary with --dry-run (result tree = initial tree);
statement checks on the binary: recursive snapshot incl. inode and mtime identical before/after;
exit status and 'Patch X FAILED' line equal to those of a real run on a copy; strace shows no successful
write-class system call (sequential and parallel drivers)."""
import re

from props import common, l3common, l3gen, strace_util, ws

ID = "C10"
NEEDS_BINARY = True
NEEDS_HOOKED_BINARY = True
TRUSTED_BASE = l3common.TRUSTED_L3 + ["strace -f: the list of write-class system calls in tools/props/strace_util.py"]

FAILED = re.compile(rb"Patch (\S+) FAILED")


def run(ctx):
    rng = ctx.rng
    thorough = ctx.tier == "thorough"
    n = 600 if thorough else 120
    cases = []
    for _ in range(n):
        w = l3gen.gen_workspace(rng)
        if w.get("applied") is None and rng.random() < 0.3:
            # a tree that quilt has initialised but where nothing is pushed yet: .pc is there, applied-patches is not
            # (seeded C10-h: the list of applied patches was opened with create(true) before the dry-run flag counted)
            w["files"][b".pc/.version"] = (b"2\n", 0o644)
            if rng.random() < 0.5:
                w["files"][b".pc/.quilt_series"] = (b"series\n", 0o644)
        cfg = l3common.rand_cfg(rng, threads=(1, 1, 2, 4), dry=True)
        cfg["extra"] = rng.choice([["-q"], [], ["-v"]])
        cases.append((w, cfg))
    reals = []
    bad = 0
    n_strace = 0
    for k, (w, cfg) in enumerate(cases):
        d = l3gen.materialize(w, prefix="c10")
        before = ws.snapshot(d, with_inodes=True, skip=())
        do_strace = k % (4 if thorough else 6) == 0
        if do_strace:
            rc, calls, out = strace_util.trace(ctx.binary, d, l3gen.cfg_args(cfg))
            n_strace += 1
            wc = strace_util.write_class(calls)
        else:
            rc, out = ws.run_push(ctx.binary, d, l3gen.cfg_args(cfg))
            wc = []
        after = ws.snapshot(d, with_inodes=True, skip=())
        reals.append("EXIT %s | %s" % (rc, l3gen.canon_snapshot(ws.snapshot(d, skip=("patches",)))))
        ws.cleanup(d)
        problems = []
        if before != after:
            changed = [p.decode("latin-1") for p in set(before) | set(after) if before.get(p) != after.get(p)]
            problems.append("tree changed by --dry-run: %s" % changed[:5])
        if wc:
            problems.append("write-class system calls during --dry-run: %s" % wc[:5])
        # prediction: compare with the real run on a copy
        cfg2 = dict(cfg)
        cfg2["dry"] = False
        d2 = l3gen.materialize(w, prefix="c10r")
        rc2, out2 = ws.run_push(ctx.binary, d2, l3gen.cfg_args(cfg2))
        ws.cleanup(d2)
        if rc != rc2:
            problems.append("exit status dry=%s real=%s" % (rc, rc2))
        if FAILED.findall(out) != FAILED.findall(out2):
            problems.append("failing patch dry=%s real=%s" % (FAILED.findall(out), FAILED.findall(out2)))
        if problems:
            bad += 1
            if bad <= 2:
                ctx.violation({"kind": "dry-run", "problems": problems, "workspace": l3common.ws_json(w),
                               "cfg": l3common.cfg_json(cfg), "args": l3gen.cfg_args(cfg)})
    forced_dry_runs(ctx, rng, 30 if thorough else 8)
    l3common.compare(ctx, cases, "dry-run workspaces", real_results=reals)
    ctx.coverage["strace_runs"] = n_strace
    ctx.coverage["statement_checks"] = len(cases)
    l3common.finish(ctx, "random workspaces (1-4 files, 1-6 patches with 1-3 file entries: modify/create/delete/rename/mode, "
                         "-pN/-R entries, ~40% with a corrupted hunk) run with --dry-run under thread counts 1/2/4, all backup "
                         "settings and verbosities; distinct = distinct (workspace, config); non-trivial = at least one patch.")


def forced_dry_runs(ctx, rng, n):
    """the prediction under forced schedules of the parallel driver (hooked binary): with several failing patches
    on different workers the dry run must name the same failing patch as the real, single-threaded run, whichever
    worker gets to its failing patch first"""
    from props import C06
    done = bad = tries = 0
    while done < n and tries < 10 * n:
        tries += 1
        w = l3gen.gen_workspace(rng, npatches=rng.randint(3, 7), fail_prob=1.0, nfail=rng.choice([2, 3]))
        fps = C06.file_patches(ctx, w)
        if not fps:
            continue
        th = rng.choice([2, 3, 4])
        wk = C06.workers(ctx, fps, th)
        if len(set(wk)) < 2:
            continue
        cfg = l3gen.default_cfg()
        cfg["threads"] = 1
        real, out_real, _ = l3gen.run_real(ctx.binary, w, cfg)
        if l3common.exit_of(real) != "1" or not FAILED.findall(out_real):
            continue
        done += 1
        for label, sched in C06.schedules(rng, fps, wk, th, 3):
            c = dict(cfg)
            c["threads"] = th
            c["dry"] = True
            r, out, log = C06.run_hooked(ctx, w, c, sched)
            ctx.coverage["forced_dry_runs"] = ctx.coverage.get("forced_dry_runs", 0) + 1
            if l3common.exit_of(r) != "1" or FAILED.findall(out) != FAILED.findall(out_real):
                bad += 1
                if bad <= 2:
                    ctx.violation({"kind": "dry-run", "problems": ["forced schedule %s: the dry run reports %s (exit %s), the real run %s" % (
                        label, FAILED.findall(out), l3common.exit_of(r), FAILED.findall(out_real))], "workspace": l3common.ws_json(w),
                        "cfg": l3common.cfg_json(c), "schedule": sched})
                break


def replay(ctx, payload):
    if "workspace" not in payload:
        return run(ctx)
    w = l3common.ws_from_json(payload["workspace"])
    cfg = l3common.cfg_from_json(payload["cfg"])
    d = l3gen.materialize(w, prefix="c10")
    before = ws.snapshot(d, with_inodes=True, skip=())
    rc, calls, out = strace_util.trace(ctx.binary, d, l3gen.cfg_args(cfg))
    after = ws.snapshot(d, with_inodes=True, skip=())
    ws.cleanup(d)
    wc = strace_util.write_class(calls)
    if before != after or wc:
        ctx.violation({"kind": "dry-run", "problems": ["tree changed" if before != after else "", str(wc[:5])],
                       "workspace": payload["workspace"], "cfg": payload["cfg"]})
    l3common.compare(ctx, [(w, cfg)], "replay")
    l3common.finish(ctx, "replay")
