"""Workspaces for runs of the real rapidquilt binary: creation, running, snapshots."""
import os
import shutil
import stat
import subprocess
import tempfile

import rqlib

# one scratch directory per check process: cleanup_all() of one check must not pull the workspaces from under
# another check that runs at the same time
SCRATCH = os.path.join(rqlib.CACHE, "scratch", "p%d" % os.getpid())


def _sweep_dead():
    """scratch directories of check processes that are gone"""
    root = os.path.dirname(SCRATCH)
    try:
        for n in os.listdir(root):
            if n.startswith("p") and n[1:].isdigit() and not os.path.exists("/proc/" + n[1:]):
                shutil.rmtree(os.path.join(root, n), ignore_errors=True)
            elif not (n.startswith("p") and n[1:].isdigit()):
                shutil.rmtree(os.path.join(root, n), ignore_errors=True)      # layout of earlier versions
    except OSError:
        pass


_sweep_dead()


def fresh_dir(prefix="ws"):
    os.makedirs(SCRATCH, exist_ok=True)
    return tempfile.mkdtemp(prefix=prefix + "-", dir=SCRATCH)


def write_tree(root, files):
    """files: {relative path (bytes or str): (content bytes, mode or None)}"""
    for p, (data, mode) in files.items():
        if isinstance(p, str):
            p = p.encode()
        full = os.path.join(root.encode(), p)
        os.makedirs(os.path.dirname(full), exist_ok=True)
        with open(full, "wb") as f:
            f.write(data)
        if mode is not None:
            os.chmod(full, mode)


def make_workspace(files, patches, series, applied=None, prefix="ws"):
    """-> directory. patches: {name: bytes}; series: bytes; applied: bytes or None"""
    d = fresh_dir(prefix)
    write_tree(d, files)
    os.makedirs(os.path.join(d, "patches"), exist_ok=True)
    for n, data in patches.items():
        write_tree(os.path.join(d, "patches"), {n: (data, None)})
    with open(os.path.join(d, "series"), "wb") as f:
        f.write(series)
    if applied is not None:
        os.makedirs(os.path.join(d, ".pc"), exist_ok=True)
        with open(os.path.join(d, ".pc", "applied-patches"), "wb") as f:
            f.write(applied)
    return d


def run_push(binary, cwd, args, timeout=20, env=None, wrapper=None):
    """-> (exit status or 'timeout', stdout+stderr bytes)"""
    cmd = (wrapper or []) + [binary, "push"] + list(args)
    e = dict(rqlib.ENV)
    e.pop("RUSTFLAGS", None)
    if env:
        e.update(env)
    try:
        p = subprocess.run(cmd, cwd=cwd, env=e, stdout=subprocess.PIPE, stderr=subprocess.STDOUT, timeout=timeout)
        return p.returncode, p.stdout
    except subprocess.TimeoutExpired as ex:
        return "timeout", ex.stdout or b""


def snapshot(root, with_inodes=False, skip=("patches", "series")):
    """{relative path bytes: ('f', content, mode[, ino]) | ('d', mode)} for everything below root"""
    res = {}
    rootb = root.encode() if isinstance(root, str) else root
    for dirpath, dirnames, filenames in os.walk(rootb):
        rel = os.path.relpath(dirpath, rootb)
        for dn in list(dirnames):
            r = dn if rel == b"." else os.path.join(rel, dn)
            if rel == b"." and dn.decode("latin-1") in skip:
                dirnames.remove(dn)
                continue
            st = os.lstat(os.path.join(dirpath, dn))
            res[r] = ("d", stat.S_IMODE(st.st_mode))
        for fn in filenames:
            r = fn if rel == b"." else os.path.join(rel, fn)
            if rel == b"." and fn.decode("latin-1") in skip:
                continue
            full = os.path.join(dirpath, fn)
            st = os.lstat(full)
            try:
                data = open(full, "rb").read()
            except OSError:
                data = b"<unreadable>"
            mode = stat.S_IMODE(st.st_mode)
            if stat.S_ISLNK(st.st_mode):
                # a symbolic link to a file is seen as that file (content and mode of the target), which is how
                # rapidquilt reads it; with_inodes additionally records the link itself
                try:
                    mode = stat.S_IMODE(os.stat(full).st_mode)
                except OSError:
                    mode = 0
            ent = ("f", data, mode)
            if with_inodes:
                ent = ent + (st.st_ino, st.st_mtime_ns)
                if stat.S_ISLNK(st.st_mode):
                    ent = ent + (b"->" + os.readlink(full),)
            res[r] = ent
    return res


def cleanup(d):
    shutil.rmtree(d, ignore_errors=True)


def cleanup_all():
    shutil.rmtree(SCRATCH, ignore_errors=True)
