"""Helpers shared by the property modules."""
import collections

import rqlib

BASE_TRUSTED = [
    "Coq 8.16.1 kernel (coqc full .vo build; vm_compute used for witness lemmas only; no native_compute)",
    "axioms: none - every property theorem must print 'Closed under the global context' (enforced)",
    "extraction: Require Extraction + ExtrOcamlBasic only (bool/option/unit/list/prod/sumbool/sumor, andb/orb inlined); nat/positive/N/Z stay inductive; OCaml 4.13.1 ocamlopt",
    "ocaml/driver.ml (text <-> extracted data conversion and printing), harness/ (Rust, calls the code of /repo's working tree), tools/*.py (generators, comparison)",
    "tools/gen_params.py: translator for the constants/operators in coq/theories/Params.v",
    "hand-written Gallina model: its agreement with the Rust code is checked only on the explored inputs",
]


def differential(ctx, cases, encode, oracle_line=None, classify=None, shrink_cands=None, label="cases",
                 trivial=None, describe=None):
    """Run cases through implementation and extracted model.
    oracle_line(case, impl_out) -> driver line that must answer TRUE (the proved boolean oracle run on
    the implementation's output), or None when the case has no oracle.
    classify(case, impl_out, model_out) -> text of a known finding, or None.
    Returns (n_mismatch, n_oracle_fail)."""
    lines = [encode(c) for c in cases]
    impl = ctx.impl(lines)
    model = ctx.model(lines)
    olines, oidx = [], []
    if oracle_line:
        for i, c in enumerate(cases):
            ol = oracle_line(c, impl[i])
            if ol is None:
                continue
            for l in ([ol] if isinstance(ol, str) else ol):
                olines.append(l)
                oidx.append(i)
    ores = ctx.model(olines) if olines else []
    oracle = {}
    for i, r in zip(oidx, ores):
        oracle[i] = oracle.get(i, True) and (r == "TRUE")
    ctx.coverage["oracle_evaluations"] = ctx.coverage.get("oracle_evaluations", 0) + len(olines)

    def fails_oracle(c):
        out = ctx.impl([encode(c)])[0]
        ol = oracle_line(c, out) if oracle_line else None
        if ol is None:
            return False
        ols = [ol] if isinstance(ol, str) else ol
        return any(r != "TRUE" for r in ctx.model(ols)) if ols else False

    def mismatches(c):
        l = encode(c)
        return ctx.impl([l])[0] != ctx.model([l])[0]

    n_mis = n_of = 0
    cov = ctx.coverage
    cov["evaluations"] = cov.get("evaluations", 0) + len(cases)
    distinct = cov.setdefault("_distinct", set())
    hist = cov.setdefault("input_histogram", collections.Counter())
    gens = cov.setdefault("generators", collections.Counter())
    gens[label] += len(cases)
    for i, c in enumerate(cases):
        if trivial is None or not trivial(c, impl[i]):
            distinct.add(lines[i])
        if describe:
            for k in describe(c, impl[i]):
                hist[k] += 1
    for i, c in enumerate(cases):
        bad_oracle = i in oracle and not oracle[i]
        bad_corr = impl[i] != model[i]
        if not bad_oracle and not bad_corr:
            continue
        kf = classify(c, impl[i], model[i]) if classify else None
        if kf:
            ctx.known_finding(kf)
            continue
        if bad_oracle:
            n_of += 1
            if n_of <= 3:
                small = rqlib.shrink(c, fails_oracle, shrink_cands) if shrink_cands else c
                l = encode(small)
                ctx.violation({"kind": "oracle-failed-on-implementation", "generator": label, "case": small,
                               "case_line": l, "implementation": ctx.impl([l])[0], "model": ctx.model([l])[0],
                               "oracle": "extracted proved oracle answered FALSE on the implementation's output"})
        else:
            n_mis += 1
            if n_mis <= 3:
                small = rqlib.shrink(c, mismatches, shrink_cands) if shrink_cands else c
                l = encode(small)
                ctx.violation({"kind": "correspondence-mismatch", "generator": label, "case": small,
                               "case_line": l, "implementation": ctx.impl([l])[0], "model": ctx.model([l])[0],
                               "correspondence": "extracted model and implementation disagree; the proved oracle accepts the implementation's output, so no input violating the property was found"},
                              no_input=True)
    samples = cov.setdefault("samples", [])
    for i in range(0, len(cases), max(1, len(cases) // 3)):
        if len(samples) < 12:
            samples.append({"generator": label, "case": lines[i][:400], "implementation": impl[i][:400]})
    cov["traces_validated_against_impl"] = cov.get("traces_validated_against_impl", 0) + len(cases)
    return n_mis, n_of


def finish(ctx, rule):
    cov = ctx.coverage
    cov["distinct_nontrivial"] = len(cov.pop("_distinct", set()))
    cov["rule"] = rule
    if "input_histogram" in cov:
        cov["input_histogram"] = dict(cov["input_histogram"])
    if "generators" in cov:
        cov["generators"] = dict(cov["generators"])
