"""C06 - parallel push equals single-threaded push under every thread schedule.
Theorems: coq/Properties/C06.v.  Runs: for generated workspaces whose patches all parse (failing series
included) the result of --threads 1 (which the L3 model reproduces) is compared byte for byte - tree, .pc,
rejects, exit status - with
  (a) --threads 2,3,4,8,16 under the schedules the OS gives, several repetitions, and
  (b) FORCED schedules with the hooked binary (--cfg opensuse_rapidquilt_verif): the order in which the
      workers look at their file patches is dictated by a schedule file: every worker runs ahead of the
      others in turn, round robin, random interleavings, and the order of saving files; the worker of each
      file patch comes from the implementation's own FilenameDistributor (harness `dist`).
The schedule log of the hooked run is read back: events that timed out (the schedule could not be honoured
because a worker had stopped) are counted."""
import collections
import os
import re

import rqlib
from props import common, l3common, l3gen, ws
from props.C16 import parse_opts

ID = "C06"
NEEDS_BINARY = True
NEEDS_HOOKED_BINARY = True
TRUSTED_BASE = l3common.TRUSTED_L3 + [
    "scheduling hook (src/rapidquilt/apply/verif_sched.rs, cfg-guarded): events wait for their turn with a timeout; schedules the hook cannot force (a worker that already stopped) are logged as TIMEOUT, not hidden",
    "interleavings inside one file patch application and inside system calls are not controlled; memory ordering of the atomic is the hardware's"]

FP = re.compile(r"\{(\w) old=(\S+) new=(\S+) ren(\d)")


def file_patches(ctx, w):
    """[(patch index, old name or None, new name or None)] in series order, or None if some patch does not parse"""
    res = []
    lines, idx = [], []
    names = []
    for l in w["series"].split(b"\n"):
        t = l.split()
        if not t or l.startswith(b"#"):
            continue
        strip, _ = parse_opts(t[1:])
        lines.append("parse %d 0 %s" % (1 if strip is None else strip, w["patches"][t[0]].hex() or "-"))
    outs = ctx.impl(lines)
    for i, out in enumerate(outs):
        if not out.startswith("OK "):
            return None
        for m in FP.finditer(out):
            o = None if m.group(2) == "/" else bytes.fromhex(m.group(2))
            n = None if m.group(3) == "/" else bytes.fromhex(m.group(3))
            res.append((i, o, n))
    return res


def workers(ctx, fps, threads):
    """file patch -> worker id, by the implementation's distributor"""
    ids = {}
    toks = []
    for (i, o, n) in fps:
        a, b = (o, None) if n is None else ((n, None) if o is None else ((o, None) if os.path.normpath(o) == os.path.normpath(n) else (o, n)))
        for x in (a, b):
            if x is not None and os.path.normpath(x) not in ids:
                ids[os.path.normpath(x)] = len(ids)
        toks.append("%d %d" % (ids[os.path.normpath(a)], -1 if b is None else ids[os.path.normpath(b)]))
    out = ctx.impl(["dist %d %d %s" % (threads, len(fps), " ".join(toks))])[0]
    assign = dict((int(x.split(":")[0]), int(x.split(":")[1])) for x in out.split()[1:])
    return [assign[ids[os.path.normpath(o if o is not None else n)]] for (i, o, n) in fps]


def event(fp):
    i, o, n = fp
    return "apply %d %s" % (i, (o if o is not None else n).decode("latin-1"))


def schedules(rng, fps, wk, threads, count):
    per = collections.defaultdict(list)
    for fp, t in zip(fps, wk):
        per[t].append(event(fp))
    active = sorted(per)
    res = []
    # each worker runs ahead of everybody else, in turn
    for first in active:
        order = [first] + [t for t in active if t != first]
        res.append(("worker %d first" % first, [e for t in order for e in per[t]]))
        res.append(("worker %d last" % first, [e for t in reversed(order) for e in per[t]]))
    # round robin and random interleavings
    for k in range(count):
        queues = {t: list(per[t]) for t in active}
        seq = []
        while any(queues.values()):
            t = rng.choice([x for x in active if queues[x]])
            burst = rng.randint(1, 3)
            for _ in range(burst):
                if queues[t]:
                    seq.append(queues[t].pop(0))
        res.append(("random interleaving", seq))
    return res


def run_hooked(ctx, w, cfg, sched, save_order=None):
    d = l3gen.materialize(w, prefix="c06")
    sf = d + ".sched"
    lf = d + ".log"
    with open(sf, "w", encoding="latin-1") as f:
        f.write("\n".join(sched + (save_order or [])) + "\n")
    rc, out = ws.run_push(ctx.hooked_binary, d, l3gen.cfg_args(cfg), timeout=60,
                          env={"RAPIDQUILT_VERIF_SCHEDULE": sf, "RAPIDQUILT_VERIF_LOG": lf, "RAPIDQUILT_VERIF_TIMEOUT_MS": "150"})
    snap = "EXIT %s | %s" % (rc, l3gen.canon_snapshot(ws.snapshot(d, skip=("patches",))))
    log = open(lf, encoding="latin-1").read().splitlines() if os.path.exists(lf) else []
    for p in (sf, lf):
        if os.path.exists(p):
            os.unlink(p)
    ws.cleanup(d)
    return snap, out, log


def gen_chain(rng):
    """file patches whose old name is an alias that does not exist and whose new name is the real file: the
    distributor must put everything linked through aliases on one worker; every hunk depends on the previous
    change of its file, so a file patch run by the wrong worker (on the pristine file) fails"""
    m = rng.randint(2, 5)
    # some files start as EMPTY files: the first file patch for such a file is a creation ('@@ -0,0 +1,3 @@') that is
    # applied to the existing empty file - with two different names it relates them like any other file patch
    # (seeded C07-h: creations were scheduled by their new name only)
    empty = {j for j in range(m) if rng.random() < 0.3}
    files = {b"f%d.txt" % j: (b"" if j in empty else b"head\nv0\ntail\n", 0o644) for j in range(m)}
    version = [0] * m
    k = rng.randint(3, 7)
    aliases = [b"alias%d" % i for i in range(k)]
    patches, series = {}, b""
    npatch = rng.randint(6, 14)
    for pi in range(npatch):
        text = b""
        for _ in range(rng.randint(1, 2)):
            j = rng.randrange(m)
            r = rng.random()
            real = b"f%d.txt" % j
            if r < 0.35:
                o, nw = rng.choice(aliases), real            # old name missing: the new name is patched
            elif r < 0.7:
                o, nw = real, rng.choice(aliases)            # old name exists: it is patched
            elif r < 0.85:
                o, nw = real, real
            else:
                o, nw = rng.choice(aliases) + b".orig", real
            if j in empty and version[j] == 0:
                text += b"--- a/" + o + b"\n+++ b/" + nw + b"\n@@ -0,0 +1,3 @@\n+head\n+v1\n+tail\n"
            else:
                text += old_new_hunk(b"a/" + o, b"b/" + nw, version[j])
            version[j] += 1
        name = b"c%d.patch" % pi
        patches[name] = text
        series += name + b"\n"
    return {"files": files, "dirs": [], "applied": None, "series": series, "patches": patches}


def gen_chain_stale(rng):
    """a chain workspace in which some alias names DO exist on disk at the start (stale foo.c.orig files) and are
    deleted by the first patches: which of the two names a later file patch applies to is decided by what is there
    when it runs, not by what was on disk when the work was handed out"""
    w = gen_chain(rng)
    used = sorted({m for t in w["patches"].values() for m in __import__("re").findall(rb"^--- a/(alias\d+)$", t, __import__("re").M)})
    if not used:
        return w
    stale = rng.sample(used, rng.randint(1, min(2, len(used))))
    head = b""
    patches = dict(w["patches"])
    for i, a in enumerate(stale):
        w["files"][a] = (b"stale\n", 0o644)
        name = b"a%d-delete.patch" % i
        patches[name] = b"--- a/" + a + b"\n+++ /dev/null\n@@ -1 +0,0 @@\n-stale\n"
        head += name + b"\n"
    w["patches"] = patches
    w["series"] = head + w["series"]
    return w


def old_new_hunk(old, new, v):
    return old.join([b"--- ", b"\n"]) + b"+++ " + new + b"\n@@ -1,3 +1,3 @@\n head\n-v%d\n+v%d\n tail\n" % (v, v + 1)


def chain_from_links(links):
    """a workspace realising a sequence of (name a, name b or -1) distributor operations: names with an even
    number are real files, odd ones are aliases that never exist; one single-entry patch per operation; each
    hunk depends on the previous change of the real file it patches"""
    real = lambda x: x % 2 == 0
    fname = lambda x: (b"f%d.txt" % x) if real(x) else (b"alias%d" % x)
    files, version = {}, {}
    patches, series = {}, b""
    for pi, (a, bb) in enumerate(links):
        if bb < 0:
            if not real(a):
                continue
            o, nw, tgt = fname(a), fname(a), a
        elif real(a):
            o, nw, tgt = fname(a), fname(bb), a          # old exists: patched
        elif real(bb):
            o, nw, tgt = fname(a), fname(bb), bb         # old missing: new patched
        else:
            continue
        if tgt not in files:
            files[fname(tgt)] = (b"head\nv0\ntail\n", 0o644)
            version[tgt] = 0
        name = b"l%d.patch" % pi
        patches[name] = old_new_hunk(b"a/" + o, b"b/" + nw, version[tgt])
        version[tgt] += 1
        series += name + b"\n"
    # real files that only occur as the second name of a link whose first name is real are never patched: fine
    return {"files": {k: v for k, v in files.items()}, "dirs": [], "applied": None, "series": series, "patches": patches}


def distributor_search(ctx, rng, count):
    """the premise of the schedule theorem - file patches linked through names share a worker - checked on the
    implementation's distributor with the proved oracle (C07) on random link sequences; a failure is turned
    into a workspace and pushed"""
    cases = []
    for _ in range(count):
        k = rng.choice([6, 8, 10, 12])
        ops = []
        for _ in range(rng.randint(5, 30)):
            a = rng.randrange(k)
            b = rng.randrange(k) if rng.random() < 0.7 else -1
            ops.append((a, b if b != a else -1))
        cases.append({"threads": rng.choice([2, 3, 4, 5, 8, 16]), "ops": ops})
    lines = ["dist %d %d %s" % (c["threads"], len(c["ops"]), " ".join("%d %d" % op for op in c["ops"])) for c in cases]
    outs = ctx.impl(lines)
    olines = []
    for c, out in zip(cases, outs):
        pairs = [p.split(":") for p in out.split()[1:]] if out.startswith("OK") else []
        olines.append("distcheck %d %d %s %d %s" % (c["threads"], len(c["ops"]), " ".join("%d %d" % op for op in c["ops"]),
                                                    len(pairs), " ".join("%s %s" % (a, t) for a, t in pairs)))
    verdicts = ctx.model(olines)
    ctx.coverage["distributor_link_sequences_checked"] = len(cases)
    return [c for c, v in zip(cases, verdicts) if v != "TRUE"]


def run(ctx):
    rng = ctx.rng
    thorough = ctx.tier == "thorough"
    n = 220 if thorough else 40
    reps = 6 if thorough else 2
    nsched = 8 if thorough else 2
    hist = ctx.coverage.setdefault("input_histogram", collections.Counter())
    cases, base = [], []
    bad = 0
    done = 0
    corpus = []
    # one patch whose failing file patches come in the order f, g, f: one reject file per name, whoever renders them
    fa = b"--- a/f\n+++ b/f\n@@ -1 +1 @@\n-nope1\n+x\n"
    ga = b"--- a/g\n+++ b/g\n@@ -1 +1 @@\n-nope2\n+x\n"
    fb = b"--- a/f\n+++ b/f\n@@ -3 +3 @@\n-nope3\n+y\n"
    corpus.append({"files": {b"f": (b"a\nb\nc\n", 0o644), b"g": (b"a\nb\n", 0o644)}, "dirs": [], "applied": None,
                   "series": b"aba.patch\n", "patches": {b"aba.patch": fa + ga + fb}})
    corpus.append({"files": {b"f": (b"a\nb\nc\n", 0o644), b"g": (b"a\nb\n", 0o644), b"h": (b"a\n", 0o644)}, "dirs": [], "applied": None,
                   "series": b"ok.patch\naba.patch\n",
                   "patches": {b"ok.patch": b"--- a/h\n+++ b/h\n@@ -1 +1 @@\n-a\n+A\n", b"aba.patch": fa + ga + ga.replace(b"nope2", b"nope4") + fb}})
    # the failing patch itself holds a file patch whose target cannot be loaded: an error, whoever meets it
    corpus.append({"files": {b"f": (b"a\nb\nc\n", 0o644), b"blocker": (b"file\n", 0o644), b"h": (b"a\n", 0o644)}, "dirs": [], "applied": None,
                   "series": b"ok.patch\nmixed.patch\nlater.patch\n",
                   "patches": {b"ok.patch": b"--- a/h\n+++ b/h\n@@ -1 +1 @@\n-a\n+A\n",
                               b"mixed.patch": fa + b"--- /dev/null\n+++ b/blocker/new.txt\n@@ -0,0 +1 @@\n+x\n",
                               b"later.patch": b"--- a/h\n+++ b/h\n@@ -1 +1 @@\n-A\n+AA\n"}})
    corpus.append({"files": {b"f": (b"a\nb\nc\n", 0o644), b"blocker": (b"file\n", 0o644), b"h": (b"a\n", 0o644)}, "dirs": [], "applied": None,
                   "series": b"ok.patch\nmixed.patch\n",
                   "patches": {b"ok.patch": b"--- a/h\n+++ b/h\n@@ -1 +1 @@\n-a\n+A\n",
                               b"mixed.patch": b"--- a/blocker/old.txt\n+++ b/blocker/old.txt\n@@ -1 +1 @@\n-x\n+y\n" + fa + ga}})
    # seeded C06-h: an earlier patch deletes the only file of a directory, the failing patch has a reject for a file in
    # it - whether d/only.txt.rej is written depends on when emptied directories are cleaned; both drivers alike
    corpus.append({"files": {b"d/only.txt": (b"x\n", 0o644), b"g": (b"a\nb\n", 0o644)}, "dirs": [], "applied": None,
                   "series": b"del.patch\nfail.patch\n",
                   "patches": {b"del.patch": b"--- a/d/only.txt\n+++ /dev/null\n@@ -1 +0,0 @@\n-x\n",
                               b"fail.patch": b"--- a/d/only.txt\n+++ b/d/only.txt\n@@ -1 +1 @@\n-x\n+y\n--- a/g\n+++ b/g\n@@ -1,2 +1,2 @@\n a\n-nope\n+B\n"}})
    while done < n:
        if corpus:
            w = corpus.pop(0)
            hist["corpus"] += 1
        elif done % 3 == 2:
            w = gen_chain(rng) if done % 2 else gen_chain_stale(rng)
            hist["chain workspace"] += 1
        else:
            # several failing patches: which one a worker meets first must not matter
            w = l3gen.gen_workspace(rng, npatches=rng.randint(2, 7), fail_prob=0.6, nfail=rng.choice([1, 2, 3]))
            if done % 5 == 1:
                l3gen.add_load_error(rng, w)
                hist["a patch whose target cannot be loaded (ENOTDIR)"] += 1
        fps = file_patches(ctx, w)
        if not fps:
            continue          # C06 speaks of workspaces whose patches all parse
        done += 1
        cfg = l3common.rand_cfg(rng)
        cfg["threads"] = 1
        r1, out1, _ = l3gen.run_real(ctx.binary, w, cfg)
        cases.append((w, cfg))
        base.append(r1)
        hist["baseline exit=" + l3common.exit_of(r1)] += 1
        probs = []
        # (a) OS schedules
        for th in rng.sample([2, 3, 4, 8, 16], 3):
            for _ in range(reps):
                c = dict(cfg)
                c["threads"] = th
                r, out, _ = l3gen.run_real(ctx.binary, w, c)
                hist["os schedule, threads=%d" % th] += 1
                if r != r1:
                    a, b = r1.split(" | "), r.split(" | ")
                    probs.append({"threads": th, "schedule": "os", "only_sequential": [x[:160] for x in a if x not in b][:4],
                                  "only_parallel": [x[:160] for x in b if x not in a][:4], "output": out[-300:].decode("latin-1")})
                    break
        # (b) forced schedules
        th = rng.choice([2, 2, 3, 4])
        wk = workers(ctx, fps, th)
        hist["workers in use: %d" % len(set(wk))] += 1
        if len(set(wk)) > 1:
            for label, sched in schedules(rng, fps, wk, th, nsched):
                c = dict(cfg)
                c["threads"] = th
                files = sorted(set(os.path.normpath(x).decode("latin-1") for fp in fps for x in fp[1:] if x is not None))
                rng.shuffle(files)
                save_order = ["save " + f for f in files] if rng.random() < 0.5 else None
                r, out, log = run_hooked(ctx, w, c, sched, save_order)
                hist["forced: " + label.split(" ")[0]] += 1
                hist["forced events honoured"] += sum(1 for l in log if not l.endswith("TIMEOUT"))
                hist["forced events timed out"] += sum(1 for l in log if l.endswith("TIMEOUT"))
                # second clause of the schedule theorem, observed: every worker looked at all its file patches of the
                # patches up to and including the one the push stopped at (the log has one line per file patch looked at)
                F = len(l3common.applied_patches(r))
                seen = collections.Counter(l.replace(" TIMEOUT", "") for l in log if l.startswith("apply "))
                need = collections.Counter(event(fp) for fp in fps if fp[0] <= F)
                missing = [e for e in need if seen[e] < need[e]]
                hist["forced: file patches <= final patch all looked at"] += 0 if missing else 1
                if missing and r == r1:
                    probs.append({"threads": th, "schedule": sched, "label": label, "missing_file_patches": missing[:5], "final_patch": F,
                                  "note": "a worker did not get to a file patch of a patch <= the final one"})
                    break
                if r != r1:
                    a, b = r1.split(" | "), r.split(" | ")
                    probs.append({"threads": th, "schedule": sched, "label": label, "save_order": save_order,
                                  "only_sequential": [x[:160] for x in a if x not in b][:4], "only_parallel": [x[:160] for x in b if x not in a][:4],
                                  "output": out[-300:].decode("latin-1"), "log": log[-12:]})
                    break
        if probs:
            bad += 1
            if bad <= 2:
                ctx.violation({"kind": "parallel-differs-from-sequential", "problems": probs[:2], "workspace": l3common.ws_json(w),
                               "cfg": l3common.cfg_json(cfg), "args": l3gen.cfg_args(cfg)})
    # the distributor on link sequences; a sequence the oracle rejects is pushed as a workspace
    for c in distributor_search(ctx, rng, 20000 if thorough else 4000)[:3]:
        w = chain_from_links(c["ops"])
        cfg = l3gen.default_cfg()
        r1, _, _ = l3gen.run_real(ctx.binary, w, cfg)
        c2 = dict(cfg)
        c2["threads"] = c["threads"]
        r2, out, _ = l3gen.run_real(ctx.binary, w, c2)
        payload = {"kind": "parallel-differs-from-sequential", "workspace": l3common.ws_json(w), "cfg": l3common.cfg_json(cfg),
                   "problems": [{"threads": c["threads"], "schedule": "os", "links": c["ops"],
                                 "note": "file patches linked through their names were given to different workers"}]}
        if r1 != r2:
            a, b = r1.split(" | "), r2.split(" | ")
            payload["problems"][0].update({"only_sequential": [x[:160] for x in a if x not in b][:4], "only_parallel": [x[:160] for x in b if x not in a][:4]})
            ctx.violation(payload)
        else:
            ctx.violation(payload, no_input=True)
    l3common.compare(ctx, cases, "threads=1 vs L3 model", real_results=base)
    l3common.finish(ctx, "workspaces of 2-7 patches whose patches all parse (55%% with a corrupted hunk, multi-file patches, renames chaining files "
                         "to one worker); --threads 1 vs 2/3/4/8/16 under OS schedules (%d repetitions each) and under forced schedules of the "
                         "hooked binary: every worker first / last, %d random interleavings in bursts of 1-3, random save orders." % (reps, nsched))


def replay(ctx, payload):
    if "workspace" not in payload:
        return run(ctx)
    w = l3common.ws_from_json(payload["workspace"])
    cfg = l3common.cfg_from_json(payload["cfg"])
    cfg["threads"] = 1
    r1, _, _ = l3gen.run_real(ctx.binary, w, cfg)
    for p in payload.get("problems", []):
        c = dict(cfg)
        c["threads"] = p["threads"]
        if p["schedule"] == "os":
            for _ in range(20):
                r, out, _ = l3gen.run_real(ctx.binary, w, c)
                if r != r1:
                    break
        else:
            r, out, log = run_hooked(ctx, w, c, p["schedule"], p.get("save_order"))
        if r != r1:
            ctx.violation({"kind": "parallel-differs-from-sequential", "problems": [p], "workspace": payload["workspace"], "cfg": payload["cfg"]})
    l3common.finish(ctx, "replay")
