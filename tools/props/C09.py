"""C09 - pushes compose: any split into several invocations equals one push.
Theorems: coq/Properties/C09.v (no-op push; the apply loop composes in memory).  Runs: every generated
series is pushed (a) in one invocation to the goal and (b) through a random cut into consecutive
invocations (push N / push <name> / push -a, thread counts 1/2/4) in ONE directory; tree, rejects and
.pc/applied-patches must be identical.  Then: the same push again (nothing to do, or fails again the
same way) must leave every byte as it is.  The single-invocation result is also compared with the L3
model, and the split is replayed on the model by feeding its own output tree back in."""
import copy
import os

from props import common, l3common, l3gen, ws

ID = "C09"
NEEDS_BINARY = True
TRUSTED_BASE = l3common.TRUSTED_L3


def no_backups(snap):
    """everything except backup copies .pc/<patch>/... (C09 speaks of tree, rejects, applied-patches)"""
    pc = b".pc".hex()
    keep = [snap.split(" | ")[0]]
    for p in snap.split(" | ")[1:]:
        comps = p.split()[1].split("/")
        if comps[0] == pc and len(comps) >= 3:
            continue
        if comps[0] == pc and p.startswith("D ") and len(comps) >= 2:
            continue
        keep.append(p)
    return keep


def rand_steps(rng, names, goal_n):
    """a cut of [0, goal_n) into consecutive pushes; the last one reaches the goal in a random spelling"""
    steps = []
    pos = 0
    while pos < goal_n:
        nxt = rng.randint(pos + 1, goal_n) if rng.random() < 0.8 else goal_n
        form = rng.choice("CUA") if nxt == len(names) else rng.choice("CU")
        if form == "C":
            steps.append((("C", nxt - pos), rng.choice([1, 1, 2, 4])))
        elif form == "U" and names.count(names[nxt - 1]) == 1:
            # (a name the series lists twice does not say which entry is meant: such a goal is spelled as a count)
            steps.append((("U", names[nxt - 1]), rng.choice([1, 1, 2, 4])))
        elif form == "U":
            steps.append((("C", nxt - pos), rng.choice([1, 1, 2, 4])))
        else:
            steps.append((("A",), rng.choice([1, 1, 2, 4])))
        pos = nxt
    return steps


def run_steps(binary, w, cfg, steps):
    d = l3gen.materialize(w, prefix="c09")
    res = []
    for g, th in steps:
        c = dict(cfg)
        c["goal"] = g
        c["threads"] = th
        rc, out = ws.run_push(binary, d, l3gen.cfg_args(c), timeout=30)
        res.append("EXIT %s | %s" % (rc, l3gen.canon_snapshot(ws.snapshot(d, skip=("patches",)))))
    ws.cleanup(d)
    return res


def check_one(ctx, w, cfg, steps):
    """-> list of problems (strings)"""
    names = l3common.series_names(w)
    goal_n = len(names)
    single_cfg = dict(cfg)
    single_cfg["goal"] = steps[-1][0] if steps[-1][0][0] != "C" else ("C", goal_n)
    single_cfg["threads"] = 1
    # single invocation, then the same invocation again
    again = run_steps(ctx.binary, w, single_cfg, [(single_cfg["goal"], 1), (single_cfg["goal"], 1)])
    single = again[0]
    multi = run_steps(ctx.binary, w, cfg, steps)
    probs = []
    # an invocation that ends with an error (unreadable patch, unusable file name, ...; not a failing hunk)
    # writes nothing at all (C17), so it cannot equal a split whose earlier invocations succeeded: C09
    # speaks of pushes that reach their goal or stop at a patch that does not apply
    sc = dict(single_cfg)
    m = ctx.model([l3gen.model_line(w, sc)])[0]
    if l3gen.model_err(m):
        ctx.coverage.setdefault("input_histogram", {})["single push ends with an error: not compared"] = \
            ctx.coverage.setdefault("input_histogram", {}).get("single push ends with an error: not compared", 0) + 1
        return [], single
    a, b = no_backups(single), no_backups(multi[-1])
    if a != b and only_kept_empty_dirs(w, a, b):
        # known finding empty-directory-kept: reported by the caller, which sees the tag
        probs.append(EMPTY_DIR_TAG)
    elif a != b:
        probs.append("split %s differs from the single push: only single %s, only split %s" % (
            [(g, t) for g, t in steps], [x[:100] for x in a if x not in b][:3], [x[:100] for x in b if x not in a][:3]))
    # the same push again: exit status as before, nothing changes (backups of a failed push may be rewritten
    # with the same bytes, so the whole listing including .pc must be identical)
    if l3common.exit_of(single) == "0":
        # (a named goal that is already applied is refused with exit status 1; the property only asks
        # that nothing changes)
        if again[1].split(" | ")[1:] != single.split(" | ")[1:]:
            probs.append("a second identical push changed something although everything was applied")
    else:
        if again[1].split(" | ")[1:] != single.split(" | ")[1:] or l3common.exit_of(again[1]) != l3common.exit_of(single):
            x, y = single.split(" | "), again[1].split(" | ")
            if True:
                probs.append("pushing again after the failed push gave a different result: %s / %s" % (
                [z[:100] for z in x if z not in y][:3], [z[:100] for z in y if z not in x][:3]))
    return probs, single


EMPTY_DIR_TAG = "known:empty-directory-kept"


def only_kept_empty_dirs(w, single_entries, split_entries):
    """known finding empty-directory-kept, by its state: the two listings differ ONLY in directories that the single
    push left and the split pushes removed, and each of them was there when the push started without any file below
    it (an empty directory, or one holding only empty directories): the series created files in it and deleted them
    again - one push never writes them and has no reason to look at the directory, split pushes write them, delete
    them and clean the directory that became empty"""
    only_single = [x for x in single_entries if x not in split_entries]
    only_split = [x for x in split_entries if x not in single_entries]
    if only_split or not only_single:
        return False
    start_files = [os.path.normpath(k) for k in w["files"]]
    start_dirs = [os.path.normpath(d) for d in w.get("dirs", [])]
    for e in only_single:
        f = e.split()
        if f[0] != "D":
            return False
        path = b"/".join(bytes.fromhex(c) for c in f[1].split("/"))
        if any(k == path or k.startswith(path + b"/") for k in start_files):
            return False          # a file was below it at the start: not this class
        if not any(d == path or d.startswith(path + b"/") for d in start_dirs):
            return False          # the directory was not there at the start
    return True


def nonl_midfile_model(ctx, w, cfg):
    """known finding no-newline-midfile, by its state: after some prefix of the series the model's overlay holds a
    file with a line that lacks its newline before the end (ModelChecks.overlay_wf is false) - whatever produced it:
    a misplaced marker, or lines added behind a last line without newline"""
    c = dict(cfg)
    c["goal"] = ("A",)
    line = l3gen.model_line(w, c)
    out = ctx.model(["wf" + line[len("push"):]])[0]
    return out.startswith("NWF")


def nonl_midfile(w):
    """known finding no-newline-midfile: some hunk uses '\\ No newline at end of file' on a line that is followed by
    further lines of the same side in the same hunk"""
    for text in w["patches"].values():
        ls = text.split(b"\n")
        for i, l in enumerate(ls):
            if l.startswith(b"\\") and i > 0 and ls[i - 1][:1] in (b" ", b"+", b"-"):
                k = ls[i - 1][:1]
                for later in ls[i + 1:]:
                    if later[:1] not in (b" ", b"+", b"-", b"\\") or later.startswith((b"--- ", b"+++ ")):
                        break
                    if (k in b" +" and later[:1] in (b" ", b"+")) or (k in b" -" and later[:1] in (b" ", b"-")):
                        return True
    return False


def dir_file_conflict(ctx, w):
    """known finding dir-and-file: the series and the tree use one path both as a directory and as a file (some
    name is a proper path prefix of another)"""
    from props.C15 import named_files
    names = set(named_files(ctx, w)) | {os.path.normpath(k) for k in w["files"]}
    names = {n for n in names if n not in (b".", b"")}
    for a in names:
        for c in names:
            if c != a and c.startswith(a + b"/"):
                return True
    return False


def corpus():
    base = l3gen.default_cfg()
    w = {"files": {b"f": (b"a\nb\n", 0o644)}, "dirs": [], "applied": None, "series": b"p1.patch\np2.patch\n",
         "patches": {b"p1.patch": b"--- a/f\n+++ b/f\n@@ -1,2 +1,2 @@\n-a\n+A\n\\ No newline at end of file\n b\n",
                     b"p2.patch": b"--- a/f\n+++ b/f\n@@ -2 +2 @@\n-b\n+B\n"}}
    # seeded C09-d: the place found for p2 must not depend on where p1 was found in the same invocation
    w2 = {"files": {b"f.txt": (b"".join(x + b"\n" for x in b"start blk item end mid1 mid2 blk item end tail1 tail2 uniq-a uniq-b uniq-c last".split()), 0o644)},
          "dirs": [], "applied": None, "series": b"p1.patch\np2.patch\n",
          "patches": {b"p1.patch": b"--- a/f.txt\n+++ b/f.txt\n@@ -7,3 +7,3 @@\n uniq-a\n-uniq-b\n+UNIQ-B\n uniq-c\n",
                      b"p2.patch": b"--- a/f.txt\n+++ b/f.txt\n@@ -2,3 +2,3 @@\n blk\n-item\n+ITEM\n end\n"}}
    # known finding dir-and-file: p1 empties the directory d, p2 creates a FILE named d.  One push still sees the
    # directory on disk when it loads "d" (error, nothing written); after `push 1` the empty directory is gone
    w3 = {"files": {b"d/f": (b"x\n", 0o644), b"g": (b"keep\n", 0o644)}, "dirs": [], "applied": None, "series": b"p1.patch\np2.patch\n",
          "patches": {b"p1.patch": b"--- a/d/f\n+++ /dev/null\n@@ -1 +0,0 @@\n-x\n",
                      b"p2.patch": b"--- /dev/null\n+++ b/d\n@@ -0,0 +1 @@\n+now a file\n"}}
    # the same finding through another door: lines added behind a last line that lacks its newline
    w4 = {"files": {b"f": (b"a\nx", 0o644)}, "dirs": [], "applied": None, "series": b"p1.patch\np2.patch\n",
          "patches": {b"p1.patch": b"--- a/f\n+++ b/f\n@@ -2,0 +3 @@\n+new\n",
                      b"p2.patch": b"--- a/f\n+++ b/f\n@@ -3 +3 @@\n-new\n+NEW\n"}}
    # known finding empty-directory-kept: d is there and empty; p1 creates d/x, p2 deletes it again
    w5 = {"files": {b"g": (b"keep\n", 0o644)}, "dirs": [b"d"], "applied": None, "series": b"p1.patch\np2.patch\n",
          "patches": {b"p1.patch": b"--- /dev/null\n+++ b/d/x\n@@ -0,0 +1 @@\n+hello\n",
                      b"p2.patch": b"--- a/d/x\n+++ /dev/null\n@@ -1 +0,0 @@\n-hello\n"}}
    # seeded C09-j: one patch file listed twice (the second time reversed); the next invocation must go on behind the
    # number of applied entries, not behind the first entry that carries the last applied name
    w6 = {"files": {b"f": (b"a\nb\n", 0o644), b"g": (b"1\n2\n", 0o644), b"h": (b"x\ny\n", 0o644)}, "dirs": [], "applied": None,
          "series": b"a.patch\nb.patch\na.patch -R\nc.patch\n",
          "patches": {b"a.patch": b"--- a/f\n+++ b/f\n@@ -1,2 +1,2 @@\n-a\n+A\n b\n",
                      b"b.patch": b"--- a/g\n+++ b/g\n@@ -1,2 +1,2 @@\n 1\n-2\n+two\n",
                      b"c.patch": b"--- a/h\n+++ b/h\n@@ -1,2 +1,2 @@\n-x\n+X\n y\n"}}
    return [(w6, dict(base), [(("C", 3), 1), (("A",), 1)]), (w6, dict(base), [(("C", 1), 1), (("C", 2), 2), (("A",), 1)]),
            (w5, dict(base), [(("C", 1), 1), (("A",), 1)]),
            (w4, dict(base), [(("C", 1), 1), (("A",), 1)]),
            (w, dict(base), [(("C", 1), 1), (("A",), 1)]), (w2, dict(base), [(("C", 1), 1), (("A",), 1)]),
            (w3, dict(base), [(("C", 1), 1), (("A",), 1)])]


def run(ctx):
    rng = ctx.rng
    thorough = ctx.tier == "thorough"
    n = 500 if thorough else 90
    cases, singles = [], []
    hist = ctx.coverage.setdefault("input_histogram", __import__("collections").Counter())
    bad = 0
    todo = corpus() + [None] * n
    for item in todo:
        if item is not None:
            w, cfg, steps = item
            names = l3common.series_names(w)
        else:
            if rng.random() < 0.2:
                w = l3gen.gen_repetitive_workspace(rng)
                hist["repetitive file, stale line numbers"] += 1
            else:
                w = l3gen.gen_workspace(rng, npatches=rng.randint(2, 6), fail_prob=0.35)
            names = l3common.series_names(w)
            if len(names) < 2:
                continue
            if rng.random() < 0.15:
                # an entry listed a second time, reversed (whether it applies there or not: one push and split pushes
                # must still agree); applied-patches then holds one name twice
                sl = [l for l in w["series"].split(b"\n") if l.strip() and not l.startswith(b"#")]
                k = rng.randrange(len(sl))
                j = rng.randint(k + 1, len(sl))
                sl.insert(j, sl[k].split()[0] + b" -R" if b"-R" not in sl[k] and b"--reverse" not in sl[k] else sl[k].split()[0])
                w = dict(w)
                w["series"] = b"\n".join(sl) + b"\n"
                names = l3common.series_names(w)
                hist["a patch listed twice in the series"] += 1
            cfg = l3common.rand_cfg(rng)
            steps = rand_steps(rng, names, len(names))
        from props.C06 import file_patches
        if file_patches(ctx, w) is None:
            # a patch that does not parse: the parallel driver loads every patch of the range first and refuses the
            # whole push (C17), the sequential one only when it gets there - C06 exempts such series, so do we:
            # split pushes of such a series are compared single-threaded
            steps = [(g, 1) for g, _ in steps]
            hist["series with an unparseable patch: single-threaded steps"] += 1
        hist["steps=%d" % len(steps)] += 1
        for g, t in steps:
            hist["goal=" + g[0]] += 1
            hist["step_threads=%d" % t] += 1
        probs, single = check_one(ctx, w, cfg, steps)
        c1 = dict(cfg)
        c1["goal"] = steps[-1][0] if steps[-1][0][0] != "C" else ("C", len(names))
        c1["threads"] = 1
        cases.append((w, c1))
        singles.append(single)
        if EMPTY_DIR_TAG in probs:
            ctx.known_finding("empty-directory-kept: a directory that is there and empty when the push starts, in which the series creates "
                              "a file and later deletes it again, stays after one push (the file is never written, nothing looks at the "
                              "directory) and is removed by split pushes (the file is written, deleted, and the emptied directory cleaned)")
            probs = [p for p in probs if p != EMPTY_DIR_TAG]
        if probs and (nonl_midfile(w) or nonl_midfile_model(ctx, w, cfg)):
            ctx.known_finding("no-newline-midfile: an application leaves a line without newline before the end of the in-memory file (a marker "
                              "on a hunk line that further lines of the same side follow, or lines added behind a last line that lacks its "
                              "newline); a later invocation loads the saved file with the two lines joined, so one push and split pushes differ")
            probs = []
        if dir_file_conflict(ctx, w):
            # a single push that ends with a load error is "not compared" above; what the known finding is about is
            # exactly that the split succeeds where the single push stops with "Is a directory" / "Not a directory"
            multi = run_steps(ctx.binary, w, cfg, steps)
            if l3common.exit_of(single) != l3common.exit_of(multi[-1]) or no_backups(single) != no_backups(multi[-1]):
                ctx.known_finding("dir-and-file: the series uses one path both as a directory and as a file (a patch empties a directory and a "
                                  "later one creates a file of that name, or the other way round); one push decides by the directory tree on "
                                  "disk and stops with a load error, split pushes see the tree after the earlier patches and go on")
            probs = []
        if probs:
            bad += 1
            if bad <= 2:
                ctx.violation({"kind": "does-not-compose", "problems": probs, "workspace": l3common.ws_json(w),
                               "cfg": l3common.cfg_json(cfg), "steps": [[list(map(lambda x: x.decode("latin-1") if isinstance(x, bytes) else x, g)), t] for g, t in steps]})
    ctx.coverage["split_runs"] = len(cases)
    l3common.compare(ctx, cases, "single invocation vs model", real_results=singles)
    model_composes(ctx, cases[: (200 if thorough else 40)])
    l3common.finish(ctx, "random workspaces of 2-6 patches (35% with a corrupted hunk), each pushed once to the goal and through a "
                         "random cut into 1-6 invocations (push N / push <name> / -a; threads 1/2/4 per invocation) in one directory; "
                         "then the final invocation repeated.")


def model_composes(ctx, cases):
    """the model itself, cut in two: feed the tree it produces after `push 1` back in and push -a; must equal
    the model's single push (supports the PARTIAL part of C09.v on the model side)"""
    n_ok = 0
    for w, cfg in cases:
        c = dict(cfg)
        c["goal"] = ("A",)
        c["backup"] = "N"
        m_single = ctx.model([l3gen.model_line(w, c)])[0]
        c1 = dict(c)
        c1["goal"] = ("C", 1)
        m1 = ctx.model([l3gen.model_line(w, c1)])[0]
        if l3gen.model_err(m1) or l3gen.model_err(m_single):
            continue          # a push that ends with an error writes nothing (C17): not comparable with a split
        w2 = ws_from_model(w, l3gen.strip_err(m1))
        if w2 is None:
            continue
        m2 = ctx.model([l3gen.model_line(w2, c)])[0]
        a, b = l3gen.strip_err(m_single).split(" | "), l3gen.strip_err(m2).split(" | ")
        if a != b and (nonl_midfile(w) or nonl_midfile_model(ctx, w, cfg)):
            continue          # known finding no-newline-midfile (reported by the run on the binary above)
        if a != b and only_kept_empty_dirs(w, a[1:], b[1:]) and a[0] == b[0]:
            continue          # known finding empty-directory-kept (the model shows it as the binary does)
        if a != b:
            ctx.violation({"kind": "model-does-not-compose", "workspace": l3common.ws_json(w), "only_single": [x[:120] for x in a if x not in b][:4],
                           "only_split": [x[:120] for x in b if x not in a][:4]}, no_input=True)
        else:
            n_ok += 1
    ctx.coverage["model_split_agreements"] = n_ok


def ws_from_model(w, snap):
    if l3common.exit_of(snap) != "0":
        return None
    files, dirs, applied = {}, [], None
    for p in snap.split(" | ")[1:]:
        f = p.split()
        path = b"/".join(bytes.fromhex(c) for c in f[1].split("/"))
        if f[0] == "D":
            dirs.append(path)
        elif path == b"series":
            continue
        elif path == b".pc/applied-patches":
            applied = bytes.fromhex(f[3]) if f[3] != "-" else b""
        else:
            files[path] = (bytes.fromhex(f[3]) if f[3] != "-" else b"", int(f[2]))
    w2 = copy.deepcopy(w)
    w2["files"], w2["dirs"], w2["applied"] = files, [d for d in dirs if d != b".pc"], applied
    w2["links"] = {}          # a saved file is a regular file
    return w2


def replay(ctx, payload):
    if "workspace" not in payload or "steps" not in payload:
        return run(ctx)
    w = l3common.ws_from_json(payload["workspace"])
    cfg = l3common.cfg_from_json(payload["cfg"])
    steps = [(tuple(x.encode("latin-1") if isinstance(x, str) and i == 1 and g[0] == "U" else x for i, x in enumerate(g)), t) for g, t in payload["steps"]]
    probs, _ = check_one(ctx, w, cfg, steps)
    if probs:
        ctx.violation({"kind": "does-not-compose", "problems": probs, "workspace": payload["workspace"], "cfg": payload["cfg"], "steps": payload["steps"]})
    l3common.finish(ctx, "replay")
