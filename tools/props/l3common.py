"""Shared runner for the tree-level properties: the real binary vs the extracted L3 model on
generated workspaces, plus helpers for the statement checks (incremental pushes, tracked trees)."""
import collections
import copy
import os
import re

import rqlib
from props import common, l3gen, ws

TRUSTED_L3 = common.BASE_TRUSTED + [
    "L3 model (coq/theories/Quilt.v): abstract file system with regular files, modes and directories; no symlinks, no foreign writers, no special files; default creation mode read from the umask of the run; HashMap iteration order = insertion order (order only matters after an output error); series lines with non-ASCII bytes and names with '..' are outside the model (reported as out-of-model, not compared)",
    "the real binary is run on real directories under /verif/.cache/scratch; results are compared as sorted (path, mode, bytes) listings",
]

def tracked(snap_str):
    """tracked part of a canonical result: no *.rej, nothing under .pc, no directories"""
    parts = [p for p in snap_str.split(" | ")[1:] if p.startswith("F ")]
    out = []
    for p in parts:
        path = p.split()[1]
        comps = path.split("/")
        if comps[0] == b".pc".hex() or comps[-1].endswith(b".rej".hex()):
            continue
        out.append(p)
    return out


def rejects(snap_str):
    return [p for p in snap_str.split(" | ")[1:] if p.startswith("F ") and p.split()[1].split("/")[-1].endswith(b".rej".hex())]


def applied_patches(snap_str):
    key = b".pc".hex() + "/" + b"applied-patches".hex()
    for p in snap_str.split(" | ")[1:]:
        f = p.split()
        if f[0] == "F" and f[1] == key:
            data = bytes.fromhex(f[3]) if f[3] != "-" else b""
            return [l for l in data.split(b"\n") if l]
    return []


def pc_backups(snap_str):
    """{(patch name, file path): (mode, data)}"""
    res = {}
    pc = b".pc".hex()
    for p in snap_str.split(" | ")[1:]:
        f = p.split()
        if f[0] != "F":
            continue
        comps = f[1].split("/")
        if comps[0] == pc and len(comps) >= 3:
            res[f[1]] = (int(f[2]), bytes.fromhex(f[3]) if f[3] != "-" else b"")
    return res


def exit_of(snap_str):
    return snap_str.split(" | ")[0].split()[1]


def series_names(w):
    names = []
    for l in w["series"].split(b"\n"):
        if not l.strip() or l.startswith(b"#"):
            continue
        names.append(l.split()[0])
    return names


def compare(ctx, cases, label, classify=None, real_results=None):
    """cases: [(workspace, cfg)].  Runs model and binary, compares, records violations.
    Returns the list of canonical real results."""
    lines = [l3gen.model_line(w, c) for w, c in cases]
    model = ctx.model(lines)
    reals = []
    cov = ctx.coverage
    hist = cov.setdefault("input_histogram", collections.Counter())
    gens = cov.setdefault("generators", collections.Counter())
    distinct = cov.setdefault("_distinct", set())
    gens[label] += len(cases)
    n_bad = 0
    for k, ((w, cfg), m) in enumerate(zip(cases, model)):
        if real_results is not None:
            r = real_results[k]
        else:
            r, out, _ = l3gen.run_real(ctx.binary, w, cfg)
        reals.append(r)
        cov["evaluations"] = cov.get("evaluations", 0) + 1
        cov["traces_validated_against_impl"] = cov.get("traces_validated_against_impl", 0) + 1
        hist["exit=" + exit_of(r)] += 1
        hist["threads=%d" % cfg["threads"]] += 1
        hist["patches=%d" % len(series_names(w))] += 1
        if l3gen.model_err(m):
            hist["model_err=" + l3gen.model_err(m)] += 1
        if exit_of(r) in ("0", "1") and len(series_names(w)) > 0:
            distinct.add(lines[k] + str(cfg["threads"]))
        if l3gen.model_err(m) == "outofmodel":
            hist["out-of-model"] += 1
            continue
        if l3gen.model_inodes(m)[1] is False:
            # an instance of HardLinks.cmd_push_tracks (C15_every_log_is_truthful) evaluated by the extracted nrun
            ctx.violation({"kind": "proof-instance-failed", "theorem": "C15_every_log_is_truthful",
                           "detail": "HardLinks.nrun rejects the operation log the model wrote", "workspace": ws_json(w),
                           "cfg": cfg_json(cfg)}, no_input=True)
        elif l3gen.model_inodes(m)[1]:
            cov["model_logs_replayed_truthful"] = cov.get("model_logs_replayed_truthful", 0) + 1
        if r == l3gen.strip_err(m):
            continue
        kf = None
        if classify:
            kf = classify(w, cfg, r, l3gen.strip_err(m))
        if kf:
            ctx.known_finding(kf)
            continue
        n_bad += 1
        if n_bad <= 2:
            def differs(x, cfg=cfg):
                rr, _, _ = l3gen.run_real(ctx.binary, x, cfg)
                mm = ctx.model([l3gen.model_line(x, cfg)])[0]
                return l3gen.model_err(mm) != "outofmodel" and rr != l3gen.strip_err(mm)
            small = rqlib.shrink(w, differs, l3gen.shrink_cands, budget=120)
            rr, out, _ = l3gen.run_real(ctx.binary, small, cfg)
            mm = ctx.model([l3gen.model_line(small, cfg)])[0]
            ra, ma = rr.split(" | "), l3gen.strip_err(mm).split(" | ")
            ctx.violation({"kind": "correspondence-mismatch", "generator": label, "workspace": ws_json(small), "cfg": cfg_json(cfg),
                           "args": l3gen.cfg_args(cfg), "only_in_real": [x[:300] for x in ra if x not in ma],
                           "only_in_model": [x[:300] for x in ma if x not in ra],
                           "tool_output_tail": out[-500:].decode("latin-1"),
                           "correspondence": "L3 model (Quilt.cmd_push) vs rapidquilt on a generated workspace"},
                          no_input=True)
    samples = cov.setdefault("samples", [])
    if cases and len(samples) < 10:
        w, c = cases[0]
        samples.append({"generator": label, "args": l3gen.cfg_args(c), "series": w["series"].decode("latin-1"),
                        "result": reals[0][:300]})
    return reals


def ws_json(w):
    return {"files": {k.decode("latin-1"): [v[0].decode("latin-1"), v[1]] for k, v in w["files"].items()},
            "dirs": [d.decode("latin-1") for d in w["dirs"]], "series": w["series"].decode("latin-1"),
            "applied": None if w.get("applied") is None else w["applied"].decode("latin-1"),
            "links": {k.decode("latin-1"): v.decode("latin-1") for k, v in (w.get("links") or {}).items()},
            "patches": {k.decode("latin-1"): v.decode("latin-1") for k, v in w["patches"].items()}}


def ws_from_json(j):
    return {"links": {k.encode("latin-1"): v.encode("latin-1") for k, v in (j.get("links") or {}).items()},
            "files": {k.encode("latin-1"): (v[0].encode("latin-1"), v[1]) for k, v in j["files"].items()},
            "dirs": [d.encode("latin-1") for d in j["dirs"]], "series": j["series"].encode("latin-1"),
            "applied": None if j.get("applied") is None else j["applied"].encode("latin-1"),
            "patches": {k.encode("latin-1"): v.encode("latin-1") for k, v in j["patches"].items()}}


def cfg_json(c):
    d = dict(c)
    g = d["goal"]
    d["goal"] = [g[0]] + ([g[1].decode("latin-1")] if g[0] == "U" else list(g[1:]))
    return d


def cfg_from_json(d):
    c = dict(d)
    g = c["goal"]
    c["goal"] = (g[0],) if g[0] == "A" else ((g[0], g[1].encode("latin-1")) if g[0] == "U" else (g[0], g[1]))
    return c


def incremental(binary, w, cfg, steps):
    """Run the pushes of [steps] (list of goal tuples) one after the other in ONE directory.
    -> list of canonical results after each step"""
    d = l3gen.materialize(w, prefix="inc")
    res = []
    for g in steps:
        c = dict(cfg)
        c["goal"] = g
        rc, out = ws.run_push(binary, d, l3gen.cfg_args(c), timeout=30)
        snap = ws.snapshot(d, skip=("patches",))
        res.append("EXIT %s | %s" % (rc, l3gen.canon_snapshot(snap)))
    ws.cleanup(d)
    return res


def rand_cfg(rng, threads=(1,), dry=False):
    cfg = l3gen.default_cfg()
    cfg["backup"] = rng.choice("AON")
    cfg["count"] = rng.choice([-1, 0, 1, 2, 100])
    cfg["fuzz"] = rng.choice([0, 0, 0, 2])
    cfg["threads"] = rng.choice(list(threads))
    cfg["dry"] = dry
    return cfg


def finish(ctx, rule):
    common.finish(ctx, rule)
    ws.cleanup_all()
