"""Generators for patch texts (L2: parser / writer)."""
import os

NUMS = [b"0", b"1", b"2", b"3", b"7", b"10", b"2147483648", b"9223372036854775806", b"9223372036854775807",
        b"9223372036854775808", b"18446744073709551615", b"18446744073709551616",
        b"123456789012345678901234567890", b"00", b"01"]

NAMES = [b"a/f", b"b/f", b"f", b"a/dir/g.c", b"b/dir/g.c", b"/dev/null", b"a/x y", b"./f", b"a//f", b"a/./f",
         b"a/f/", b"a/../f", b"../f", b"/abs/f", b"a/\xff\xfe", b"a/.", b".", b"a", b"a/b/c/d/e"]

QUOTED = [b'"a/x y"', b'"a/q\\"uote"', b'"a/tab\\there"', b'"a/oct\\101"', b'"a/\\303\\244"', b'"/dev/null"',
          b'"a/bad\\9"', b'"a/unterminated', b'"a/nl\\n"', b'""', b'"a/\\377"', b'"a/\\056\\056/x"']


def hexs(b):
    return b.hex() if b else "-"


LONG_UTF8 = ("\u00e9" * 40).encode() + b"x"      # multi-byte characters across any small cut position
LONG_UTF8_ODD = b"a" + ("\u00e9" * 45).encode()


def body_line(rng, kind=None, alphabet=(b"aaa", b"bbb", b"ccc", b"", b"x y", b"\\ not a tag", b"@@ -1 +1 @@", b"--- a/f", b"+++ b/f", b"diff --git a/f b/f", LONG_UTF8, LONG_UTF8_ODD, b"\xff" * 90)):
    kind = kind or rng.choice([b" ", b" ", b"+", b"-", b"\t", b""])
    txt = rng.choice(alphabet)
    if rng.random() < 0.05:
        txt = bytes(rng.randrange(256) for _ in range(rng.randint(0, 5))).replace(b"\n", b"")
    return kind + txt + b"\n"


def gen_hunk(rng, sloppy=0.1):
    """a hunk: header + body; mostly consistent counts"""
    n_pre = rng.randint(0, 3)
    n_suf = rng.randint(0, 3)
    lines = []
    rc = ac = 0
    for _ in range(n_pre):
        lines.append(body_line(rng, rng.choice([b" ", b" ", b"\t", b""])))
        rc += 1
        ac += 1
    for _ in range(rng.randint(0, 4)):
        k = rng.choice([b"+", b"-", b" "])
        lines.append(body_line(rng, k))
        if k in (b"-", b" "):
            rc += 1
        if k in (b"+", b" "):
            ac += 1
    for _ in range(n_suf):
        lines.append(body_line(rng, b" "))
        rc += 1
        ac += 1
    # "\ No newline" tags in arbitrary positions
    if lines and rng.random() < 0.3:
        i = rng.randrange(len(lines))
        lines.insert(i + 1, rng.choice([b"\\ No newline at end of file\n", b"\\ Kein Zeilenumbruch\n", b"\\\n"]))
    rl = rng.choice([0, 1, 1, 2, 5, 17])
    al = rng.choice([0, 1, rl, rl + 1])
    if rng.random() < sloppy:
        rc = rng.choice([rc + 1, max(0, rc - 1), 0])
    if rng.random() < sloppy:
        ac = rng.choice([ac + 1, max(0, ac - 1), 0])
    rls, als = str(rl).encode(), str(al).encode()
    rcs, acs = str(rc).encode(), str(ac).encode()
    if rng.random() < 0.08:
        rls = rng.choice(NUMS)
    if rng.random() < 0.08:
        rcs = rng.choice(NUMS)
    if rng.random() < 0.05:
        als = rng.choice(NUMS)
    if rng.random() < 0.05:
        acs = rng.choice(NUMS)
    left = b"-" + rls + (b"," + rcs if (rc != 1 or rng.random() < 0.5 or rcs != b"1") else b"")
    right = b"+" + als + (b"," + acs if (ac != 1 or rng.random() < 0.5 or acs != b"1") else b"")
    func = rng.choice([b"", b"", b" func()", b" ", b" @@ x", b"x"])
    hdr = b"@@ " + left + b" " + right + b" @@" + func + b"\n"
    if rng.random() < 0.03:
        hdr = rng.choice([b"@@ -1 +1\n", b"@@ -a,1 +1 @@\n", b"@@ -1,1 +1,1 @\n", b"@@ -1,+1 @@\n", b"@@ -1 +1 @@"])
    return hdr + b"".join(lines)


def gen_name(rng):
    r = rng.random()
    if r < 0.7:
        return rng.choice(NAMES)
    if r < 0.9:
        return rng.choice(QUOTED)
    return bytes(rng.choice(b"ab/. \t\"\\\xc3\xa4\x01") for _ in range(rng.randint(1, 6)))


def gen_filepatch(rng):
    style = rng.choice(["plain", "plain", "ts", "git", "git", "gitnohunk", "devnull_old", "devnull_new", "reversed", "onlyplus"])
    o, n = gen_name(rng), gen_name(rng)
    if rng.random() < 0.6:
        n = o.replace(b"a/", b"b/", 1) if o.startswith(b"a/") else o
    out = b""
    if style == "ts":
        stamp = rng.choice([b"\t2020-01-01 00:00:00.000000000 +0000", b"\t1970-01-01 00:00:00.000000000 +0000", b"\t1970-01-01 00:00:00 +0000",
                            b"\t1970-01-01 00:00:00Z", b" 1970-01-01 01:00:00.000000000 +0100", b"\tThu Jan  1 00:00:00 1970"])
        out += b"--- " + o + stamp + b"\n+++ " + n + rng.choice([b"\t2020-01-02 00:00:00 +0000", stamp]) + b"\n"
    elif style in ("git", "gitnohunk"):
        out += b"diff --git " + o + b" " + n + b"\n"
        meta = []
        # modes of every kind git writes: regular, executable, symbolic link, gitlink, and bits beyond the permissions
        # (seeded C12-i: the writer forced every mode into the shape of a regular file's)
        MODES = [b"100644", b"100755", b"100644", b"100755", b"120000", b"160000", b"100600", b"104755", b"040000", b"100664", b"0", b"777"]
        if rng.random() < 0.3:
            meta += [b"old mode " + rng.choice(MODES) + b"\n", b"new mode " + rng.choice(MODES) + b"\n"]
        if rng.random() < 0.2:
            meta += [b"new file mode " + rng.choice(MODES) + b"\n"]
        if rng.random() < 0.2:
            meta += [b"deleted file mode " + rng.choice(MODES) + b"\n"]
        if rng.random() < 0.3:
            meta += [b"rename from " + o + b"\n", b"rename to " + n + b"\n"]
        if rng.random() < 0.1:
            meta += [b"copy from x\n", b"copy to y\n"]
        if rng.random() < 0.1:
            meta += [b"similarity index 90%\n"]
        if rng.random() < 0.4:
            meta += [rng.choice([b"index 1234abc..5678def 100644\n", b"index 1234abc..5678def\n", b"index 0000000..e69de29\n",
                                 b"index xyz..123\n", b"index 12..\n", b"index 12..34 1234\n"])]
        if rng.random() < 0.05:
            meta += [rng.choice([b"old mode 1006440\n", b"new mode 10064\n", b"old mode abc\n", b"GIT binary patch\n", b"new mode 100644 \n"])]
        rng.shuffle(meta)
        out += b"".join(meta)
        if style == "git" or rng.random() < 0.3:
            out += b"--- " + (b"/dev/null" if rng.random() < 0.1 else o) + b"\n+++ " + (b"/dev/null" if rng.random() < 0.1 else n) + b"\n"
    elif style == "devnull_old":
        out += b"--- /dev/null\n+++ " + n + b"\n"
    elif style == "devnull_new":
        out += b"--- " + o + b"\n+++ /dev/null\n"
    elif style == "reversed":
        out += b"+++ " + n + b"\n--- " + o + b"\n"
    elif style == "onlyplus":
        out += b"+++ " + n + b"\n"
    else:
        out += b"--- " + o + b"\n+++ " + n + b"\n"
    if style != "gitnohunk":
        for _ in range(rng.choice([0, 1, 1, 1, 2, 3])):
            out += gen_hunk(rng)
    return out


def gen_patch(rng):
    out = b""
    for _ in range(rng.choice([0, 0, 1, 2])):
        out += rng.choice([b"Some description\n", b"\n", b"Index: f\n", b"===\n", b"commit 123\n", b"--- not a header", b"diff -ruN a b\n"])
        if not out.endswith(b"\n"):
            out += b"\n"
    for _ in range(rng.choice([1, 1, 2, 3])):
        out += gen_filepatch(rng)
        if rng.random() < 0.2:
            out += rng.choice([b"garbage between\n", b"\n", b"-- \n2.26.2\n"])
    return out


MEANINGFUL = [b"--- a/f\n", b"+++ b/f\n", b"--- /dev/null\n", b"+++ /dev/null\n", b"diff --git a/f b/f\n",
              b"index 12..34\n", b"old mode 100644\n", b"new mode 100755\n", b"new file mode 100644\n",
              b"deleted file mode 100644\n", b"rename from a/f\n", b"rename to b/g\n", b"copy from x\n", b"GIT binary patch\n",
              b"@@ -1 +1 @@\n", b"@@ -1,2 +1,2 @@\n", b"@@ -0,0 +1 @@\n", b"@@ -1 +0,0 @@\n", b"@@ -2,0 +3 @@\n",
              b" ctx\n", b"+add\n", b"-del\n", b"\tctx\n", b"\n", b"\\ No newline at end of file\n", b"garbage\n",
              b"@@ -1,18446744073709551615 +1 @@\n", b"@@ -9223372036854775808 +1 @@\n", b"--- \"a/q\"\n", b"+++ \"b/q\\\n"]


def gen_ctxfree_multi(rng):
    """a file patch of 2-4 hunks without context lines (diff -U0) whose first hunk removes the first lines of the
    file ('-1,N +0,0') or adds lines at the top ('-0,0 +1,N'): what a single such hunk means (deletion / creation
    of the file) must not be read into a patch that has more hunks"""
    name = rng.choice([b"f", b"dir/g.c", b"x y"])
    out = b"--- " + rng.choice([b"a/", b""]) + name + b"\n+++ " + rng.choice([b"b/", b""]) + name + b"\n"
    first = rng.choice(["del", "add", "del1"])
    if first == "del":
        n = rng.randint(1, 3)
        out += b"@@ -1,%d +0,0 @@\n" % n + b"".join(b"-" + rng.choice([b"aaa", b"bbb", b"ccc"]) + b"\n" for _ in range(n))
    elif first == "del1":
        out += b"@@ -1 +0,0 @@\n-aaa\n"
    else:
        n = rng.randint(1, 3)
        out += b"@@ -0,0 +1,%d @@\n" % n + b"".join(b"+" + rng.choice([b"aaa", b"bbb", b"ccc"]) + b"\n" for _ in range(n))
    line = 5
    for _ in range(rng.randint(1, 3)):
        k = rng.choice(["chg", "add", "del"])
        if k == "chg":
            out += b"@@ -%d +%d @@\n-x\n+y\n" % (line, line)
        elif k == "add":
            out += b"@@ -%d,0 +%d @@\n+y\n" % (line, line + 1)
        else:
            out += b"@@ -%d +%d,0 @@\n-x\n" % (line, line - 1)
        line += rng.randint(2, 6)
    return out


def gen_soup(rng, maxlines=7):
    n = rng.randint(0, maxlines)
    out = b"".join(rng.choice(MEANINGFUL) for _ in range(n))
    if out and rng.random() < 0.2:
        out = out[:-1]                       # no final newline
    return out


def mutate(rng, data):
    data = bytearray(data)
    for _ in range(rng.randint(1, 4)):
        k = rng.random()
        if not data:
            data += bytes([rng.randrange(256)])
            continue
        i = rng.randrange(len(data))
        if k < 0.3:
            data[i] = rng.randrange(256)
        elif k < 0.5:
            del data[i]
        elif k < 0.7:
            data[i:i] = bytes([rng.choice(b"\n @+-\\\"\t0123456789,")])
        elif k < 0.85:
            del data[i:]
        else:
            j = rng.randrange(len(data))
            data[i:i] = data[j:j + rng.randint(1, 20)]
    return bytes(data)


def fixtures():
    d = "/repo/testdata/parsing"
    out = []
    try:
        for f in sorted(os.listdir(d)):
            if f.endswith(".patch"):
                out.append(open(os.path.join(d, f), "rb").read())
    except OSError:
        pass
    return out
