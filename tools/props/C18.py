"""C18 - an output failure is never reported as success nor recorded as applied.
Theorems: coq/Properties/C18.v (fault oracle in the file-system model).  Runs on the binary: a first traced
run lists every output system call (open for writing, write, unlink, mkdir, rmdir, fchmod) with its path;
then the push is repeated on a fresh copy once per such call with that very call made to fail
(strace -P <path> -e inject=<call>:error=<EIO|ENOSPC|EACCES>:when=<n>), in the sequential and the parallel
driver.  Required each time: exit status 1 (not 0, no panic/abort), a message that names the path, and
.pc/applied-patches not extended.  Model side: the extracted model is run with the fault at every position
k; every fired fault must give EXIT 1 ERR save with applied-patches unchanged, and for faults on atomic
calls (open/unlink/mkdir) the tree the binary leaves must be one of the trees the model leaves for some k
(single-file workspaces, where the order of saving is fixed)."""
import collections
import os
import re

import rqlib
from props import common, l3common, l3gen, strace_util, ws

ID = "C18"
NEEDS_BINARY = True
TRUSTED_BASE = l3common.TRUSTED_L3 + [
    "strace fault injection (-e inject=...:when=n with -P path): the n-th call on that path fails without effect",
    "the model's output operations are atomic and its directory clean-up cannot fail; faults in write(2)/fchmod and rmdir are checked on the binary only"]

ERR_FOR = {"openat": "EIO", "open": "EIO", "creat": "EIO", "unlink": "EIO", "unlinkat": "EIO", "mkdir": "EACCES", "mkdirat": "EACCES",
           "rmdir": "EIO", "write": "ENOSPC", "fchmod": "EPERM"}
PATHRE = re.compile(r'"((?:[^"\\]|\\.)*)"')


def output_calls(calls, root):
    """-> [(syscall, relative path, occurrence among the calls of that syscall naming that path (1-based))]"""
    seen = collections.Counter()
    res = []
    written = set()
    for name, args, ret in calls:
        if name == "write":
            # traced with -y: write(3</abs/path>, ...
            m = re.match(r"\d+<([^>]*)>", args)
            if m and ret > 0 and m.group(1).startswith(root + "/"):
                path = os.path.normpath(m.group(1)[len(root) + 1:])
                if path not in written:
                    written.add(path)
                    res.append(("write", path, 1))
            continue
        if name == "fchmod":
            # traced with -y: fchmod(3</abs/path>, 0755): giving an output file its recorded mode is part of writing it
            # (seeded C18-h: a failing fchmod was swallowed, the script lost its execute bit and the push said 0)
            m = re.match(r"\d+<([^>]*)>", args)
            if m and ret >= 0 and m.group(1).startswith(root + "/"):
                path = os.path.normpath(m.group(1)[len(root) + 1:])
                seen[(name, path)] += 1
                res.append((name, path, seen[(name, path)]))
            continue
        if name not in ("openat", "open", "creat", "unlink", "unlinkat", "mkdir", "mkdirat", "rmdir"):
            continue
        m = PATHRE.search(args)
        if not m:
            continue
        path = m.group(1)
        if path.startswith(("/dev/", "/proc/", "/sys/", "/etc/", "/lib", "/usr/")):
            continue
        if os.path.isabs(path):
            if not path.startswith(root + "/"):
                continue
            path = path[len(root) + 1:]
        path = os.path.normpath(path)
        if path.startswith("patches/") or path == "series":
            continue
        seen[(name, path)] += 1
        is_write = name not in ("openat", "open") or any(f in args for f in strace_util.WRITE_FLAGS)
        if is_write and ret >= 0:
            res.append((name, path, seen[(name, path)]))
    return res


def inject_run(ctx, w, cfg, call, path, occ, errno=None):
    d = l3gen.materialize(w, prefix="c18")
    before = l3gen.canon_snapshot(ws.snapshot(d, skip=("patches",)))
    errno = errno or ERR_FOR[call]
    # calls with a path argument are matched literally (relative, as the binary passes it); calls on a descriptor
    # are matched through /proc/<pid>/fd, i.e. by absolute path - needed when the file does not exist yet
    ppath = os.path.join(d, path) if call in ("write", "fchmod") else path
    extra = ["-e", "trace=" + strace_util.CALLS + ",write", "-P", ppath, "-e", "inject=%s:error=%s:when=%d%s" % (call, errno, occ, "+" if call == "write" else "")]
    # (write: every write from the n-th on fails - a BufWriter retries the flush when it is dropped, a disk
    # that is full stays full)
    rc, calls, out = strace_util.trace(ctx.binary, d, l3gen.cfg_args(cfg), extra_strace=extra)
    after = l3gen.canon_snapshot(ws.snapshot(d, skip=("patches",)))
    ws.cleanup(d)
    # did the fault fire?  With several threads the call may not happen in this run at all: a file that only
    # patches behind the failing one touch is loaded (and saved again) only if its worker ran ahead
    inject_run.fired = any(name == call and ret < 0 for name, _, ret in calls)
    return rc, out, before, after


def applied_of(snap):
    return l3common.applied_patches("EXIT 0 | " + snap)


def check_outcome(rc, out, before, after, call, path, what):
    probs = []
    if rc == 0:
        probs.append("%s: exit status 0 although %s on %s failed" % (what, call, path))
    elif rc != 1:
        probs.append("%s: exit status %s (crash?) when %s on %s failed: %s" % (what, rc, call, path, out[-200:].decode("latin-1")))
    text = out.decode("latin-1")
    base = os.path.basename(path)
    if rc == 1 and path not in text and base not in text:
        probs.append("%s: the message does not name %s: %r" % (what, path, text[-200:]))
    if applied_of(after) != applied_of(before):
        probs.append("%s: .pc/applied-patches grew from %r to %r although %s on %s failed" % (what, applied_of(before), applied_of(after), call, path))
    return probs


def short_write_runs(ctx):
    """a write that only partly succeeds (file size limit: the first write is cut short, the next one fails) is an output
    failure like any other: exit status 1, a message, nothing recorded - the rest of a line must not be dropped silently"""
    body = b"".join(b"line %04d of a file that is larger than the limit\n" % i for i in range(130))      # ~6 KB
    w = {"files": {b"big.txt": (body, 0o644)}, "dirs": [], "applied": None, "series": b"p.patch\n",
         "patches": {b"p.patch": b"--- a/big.txt\n+++ b/big.txt\n@@ -1,2 +1,2 @@\n-line 0000 of a file that is larger than the limit\n+LINE 0\n line 0001 of a file that is larger than the limit\n"}}
    limit = ["bash", "-c", 'trap "" XFSZ; ulimit -f 2; exec "$@"', "--"]
    probs = []
    for th in (1, 2):
        for backup in "NA":
            cfg = l3gen.default_cfg()
            cfg["threads"] = th
            cfg["backup"] = backup
            cfg["extra"] = ["-q"]
            d = l3gen.materialize(w, prefix="c18s")
            before = l3gen.canon_snapshot(ws.snapshot(d, skip=("patches",)))
            rc, out = ws.run_push(ctx.binary, d, l3gen.cfg_args(cfg), timeout=30, wrapper=limit)
            after = l3gen.canon_snapshot(ws.snapshot(d, skip=("patches",)))
            ws.cleanup(d)
            ctx.coverage["short_write_runs"] = ctx.coverage.get("short_write_runs", 0) + 1
            probs += check_outcome(rc, out, before, after, "write", "big.txt", "file size limit, threads=%d backup=%s" % (th, backup))
    if probs:
        ctx.violation({"kind": "output-failure-mishandled", "problems": probs[:4], "note": "ulimit -f 2 with SIGXFSZ ignored: writes beyond 1 KiB are cut short, then fail with EFBIG"})


def backup_file_faults(ctx):
    """fixed fault positions that run first (seeded C18-b: the result of writing a quilt backup file dropped): the write
    of the content of a backup file and the fchmod on it fail - exit status 1, a message, nothing recorded; with one
    and two threads, for a push that succeeds under --backup always and for one that stops early under onfail"""
    good = b"--- a/f\n+++ b/f\n@@ -1,2 +1,2 @@\n-a\n+A\n b\n"
    bad = b"--- a/g\n+++ b/g\n@@ -1 +1 @@\n-does not match\n+y\n"
    probs = []
    runs = 0
    for backup, patches, series in (("A", {b"p1.patch": good}, b"p1.patch\n"),
                                    ("O", {b"p1.patch": good, b"p2.patch": bad}, b"p1.patch\np2.patch\n")):
        w = {"files": {b"f": (b"a\nb\n", 0o755), b"g": (b"x\n", 0o644)}, "dirs": [], "applied": None, "series": series, "patches": patches}
        for th in (1, 2):
            for call in ("write", "fchmod"):
                cfg = l3gen.default_cfg()
                cfg["threads"] = th
                cfg["backup"] = backup
                cfg["count"] = -1
                cfg["extra"] = ["-q"]
                rc, out, before, after = inject_run(ctx, w, cfg, call, ".pc/p1.patch/f", 1)
                if not inject_run.fired:
                    continue
                runs += 1
                if backup == "A":
                    probs += check_outcome(rc, out, before, after, call, ".pc/p1.patch/f", "backup file, threads=%d backup=always" % th)
                else:
                    # the push fails anyway (exit 1); the failed backup must still be reported
                    if rc != 1:
                        probs.append("backup=onfail threads=%d: exit status %s when %s on the backup file failed" % (th, rc, call))
                    if "p1.patch" not in out.decode("latin-1") and ".pc" not in out.decode("latin-1"):
                        probs.append("backup=onfail threads=%d: no message about the backup file whose %s failed: %r" % (th, call, out[-200:]))
    ctx.coverage["backup_file_fault_runs"] = runs
    if probs:
        ctx.violation({"kind": "output-failure-mishandled", "problems": probs[:4], "note": "fault injected with strace on write/fchmod of .pc/p1.patch/f"})


def model_faults(ctx, w, cfg):
    """run the model with the fault at k = 0, 1, ... until it no longer fires -> [(k, result)]"""
    res = []
    for k in range(0, 400):
        c = dict(cfg)
        c["fault"] = k
        m = ctx.model([l3gen.model_line(w, c)])[0]
        if " || FIRED" not in m:
            break
        res.append((k, m))
    return res


def run(ctx):
    rng = ctx.rng
    thorough = ctx.tier == "thorough"
    n = 60 if thorough else 14
    per_ws = 1000 if thorough else 7
    hist = ctx.coverage.setdefault("input_histogram", collections.Counter())
    bad = 0
    total_pos = 0
    total_inj = 0
    short_write_runs(ctx)
    backup_file_faults(ctx)
    for i in range(n):
        single = (i % 3 == 0)
        if single:
            w = l3gen.gen_workspace(rng, npatches=rng.randint(1, 3), fail_prob=0.4, features=("modify", "mode", "strip"))
            keep = sorted(w["files"])[:1]
            w["files"] = {k: w["files"][k] for k in keep}
        else:
            w = l3gen.gen_workspace(rng, fail_prob=0.4)
        cfg = l3common.rand_cfg(rng, threads=(1, 1, 2))
        cfg["backup"] = rng.choice("AON")
        if single:
            cfg["threads"] = 1
        # baseline, traced
        d = l3gen.materialize(w, prefix="c18b")
        rc0, calls, out0 = strace_util.trace(ctx.binary, d, l3gen.cfg_args(cfg), extra_strace=["-y", "-e", "trace=" + strace_util.CALLS + ",write"])
        base_after = l3gen.canon_snapshot(ws.snapshot(d, skip=("patches",)))
        ws.cleanup(d)
        positions = output_calls(calls, d)
        if cfg["threads"] > 1:
            # strace counts `when=` per thread: the n-th open of a path in the process is not the n-th in the thread
            # that happens to save the file, so with several threads only calls that are the first of their kind on
            # their path in the whole process can be targeted (reject, backup opens; unlink; first mkdir; writes)
            positions = [p_ for p_ in positions if p_[2] == 1]
        if single:
            # "single" promises that the order of saving is fixed; the patches of the workspace may still create or touch
            # a second file (the tree was cut down to one file, the patches were not) - then two files are saved in
            # the order of a HashMap, which the model does not fix: no exact tree comparison for such a run
            saved = {p_[1] for p_ in positions if p_[0] in ("openat", "unlink")
                     and not p_[1].startswith(".pc/") and not p_[1].endswith(".rej")}
            if len(saved) > 1:
                single = False
                hist["single-file workspace whose patches save a second file: no exact tree comparison"] += 1
        total_pos += len(positions)
        hist["output calls per run: %d" % min(len(positions) // 5 * 5, 40)] += 1
        # model: every fault position
        mf = model_faults(ctx, w, cfg) if cfg["threads"] == 1 else []
        m0 = ctx.model([l3gen.model_line(w, cfg)])[0]
        model_trees = set()
        for k, m in mf:
            ctx.coverage["model_fault_positions"] = ctx.coverage.get("model_fault_positions", 0) + 1
            if not m.startswith("EXIT 1 ERR save"):
                ctx.violation({"kind": "model-fault-not-reported", "k": k, "model": m[:200], "workspace": l3common.ws_json(w), "cfg": l3common.cfg_json(cfg)}, no_input=True)
            if l3common.applied_patches(l3gen.strip_err(m)) != (l3common.series_names(w)[:0] if w.get("applied") is None else []):
                # applied-patches may only be what it was before (nothing in generated workspaces)
                ctx.violation({"kind": "model-records-after-fault", "k": k, "model": m[:300]}, no_input=True)
            model_trees.add(l3gen.strip_err(m).split(" | ", 1)[1] if " | " in l3gen.strip_err(m) else "")
        sample = positions if len(positions) <= per_ws else rng.sample(positions, per_ws)
        for call, path, occ in sample:
            rc, out, before, after = inject_run(ctx, w, cfg, call, path, occ)
            if not inject_run.fired:
                hist["fault position not reached in the injected run (threads=%d)" % cfg["threads"]] += 1
                continue
            total_inj += 1
            hist["inject " + call] += 1
            what = "threads=%d" % cfg["threads"]
            probs = check_outcome(rc, out, before, after, call, path, what)
            if rc0 == 0 and after == base_after and rc == 0:
                probs.append("the fault had no visible effect and the push reports success")
            # (create_dir_all is one atomic operation of the model but several mkdir calls: not compared exactly)
            if single and call in ("openat", "unlink") and not l3gen.model_err(m0) and mf:
                if after not in model_trees:
                    probs.append("tree after the fault on %s(%s) is none of the %d trees the model leaves under its fault positions" % (call, path, len(model_trees)))
                hist["tree matched a model fault position"] += 1
            if probs:
                bad += 1
                if bad <= 2:
                    ctx.violation({"kind": "output-failure-mishandled", "problems": probs, "workspace": l3common.ws_json(w), "cfg": l3common.cfg_json(cfg),
                                   "args": l3gen.cfg_args(cfg), "fault": [call, path, occ], "output": out[-400:].decode("latin-1")})
    ctx.coverage["evaluations"] = ctx.coverage.get("evaluations", 0) + total_inj
    ctx.coverage["traces_validated_against_impl"] = total_inj
    ctx.coverage["fault_positions_found"] = total_pos
    ctx.coverage["fault_positions_injected"] = total_inj
    ctx.coverage["_distinct"] = set(range(total_inj))
    l3common.finish(ctx, "%d workspaces (a third with a single tracked file for the exact tree comparison); per workspace every output system call "
                         "of a traced run is a fault position (%s of them injected per workspace); threads 1/2; all backup modes; failing and "
                         "succeeding series." % (n, "all" if thorough else "up to %d" % per_ws))


def replay(ctx, payload):
    if "workspace" not in payload or "fault" not in payload:
        return run(ctx)
    w = l3common.ws_from_json(payload["workspace"])
    cfg = l3common.cfg_from_json(payload["cfg"])
    call, path, occ = payload["fault"]
    rc, out, before, after = inject_run(ctx, w, cfg, call, path, occ)
    probs = check_outcome(rc, out, before, after, call, path, "replay")
    if probs:
        ctx.violation({"kind": "output-failure-mishandled", "problems": probs, "workspace": payload["workspace"], "cfg": payload["cfg"], "fault": payload["fault"]})
    l3common.finish(ctx, "replay")
