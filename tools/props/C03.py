"""C03 - an applied file patch changes exactly the marked lines.  Theorems: coq/Properties/C03.v."""
from props import common, l1common

ID = "C03"
NEEDS_BINARY = True
TRUSTED_BASE = common.BASE_TRUSTED + [
    "C03: 'removed lines' of a hunk = the lines between its outer contexts (inner context is indistinguishable from an equal removed+added line), DESIGN.md section 9",
]


def run(ctx):
    saved_files(ctx)
    l1common.run(ctx, ID, l1common.oracle_c03,
                 "Oracle: extracted rewrite_ok (streaming copy of the original with each applied hunk's changed "
                 "region replaced, regions sorted/separated/in range) on the implementation's content and reports.")


def saved_files(ctx):
    """the statement down to the bytes on disk: a push of patches for files of a few thousand lines leaves exactly the
    model's files (every line that was not marked is still there - also the 1025th and the last)"""
    from props import l3common, l3gen, ws
    rng = ctx.rng
    cases = []
    for n, width in ((1030, 3), (2500, 0), (4100, 2)):
        lines = [b"line %d\n" % i for i in range(n)]
        patches, series = {}, b""
        cur = list(lines)
        for k, at in enumerate(sorted(rng.sample(range(5, n - 5), 3))):
            lo, hi = max(0, at - width), min(n, at + width + 1)
            body = b"".join(b" " + l for l in cur[lo:at]) + b"-" + cur[at] + b"+changed %d\n" % k + b"".join(b" " + l for l in cur[at + 1:hi])
            patches[b"big%d.patch" % k] = b"--- a/big.txt\n+++ b/big.txt\n@@ -%d,%d +%d,%d @@\n" % (lo + 1, hi - lo, lo + 1, hi - lo) + body
            series += b"big%d.patch\n" % k
            cur[at] = b"changed %d\n" % k
        w = {"files": {b"big.txt": (b"".join(lines), 0o644)}, "dirs": [], "applied": None, "series": series, "patches": patches}
        for th in (1, 2):
            cfg = l3gen.default_cfg()
            cfg["threads"] = th
            cfg["backup"] = "A"
            cases.append((w, cfg))
    l3common.compare(ctx, cases, "files of 1000-4000 lines through the binary")
    ws.cleanup_all()


def replay(ctx, payload):
    if not l1common.replay(ctx, payload, l1common.oracle_c03):
        run(ctx)
