"""C03 - an applied file patch changes exactly the marked lines.  Theorems: coq/Properties/C03.v."""
from props import common, l1common

ID = "C03"
TRUSTED_BASE = common.BASE_TRUSTED + [
    "C03: 'removed lines' of a hunk = the lines between its outer contexts (inner context is indistinguishable from an equal removed+added line), DESIGN.md section 9",
]


def run(ctx):
    l1common.run(ctx, ID, l1common.oracle_c03,
                 "Oracle: extracted rewrite_ok (streaming copy of the original with each applied hunk's changed "
                 "region replaced, regions sorted/separated/in range) on the implementation's content and reports.")


def replay(ctx, payload):
    if not l1common.replay(ctx, payload, l1common.oracle_c03):
        run(ctx)
