"""C11 - the patch parser is total: any bytes give a patch or an error, never a crash.
Theorems: coq/Properties/C11.v (the model never runs out of fuel = every loop consumes input; it has no
panic outcome left).  Tie: model vs parse_patch of /repo's tree on the same bytes (in-process, under an
address-space limit so that an allocation out of proportion aborts and is seen); the whole tool on a
sample of the same inputs and on arbitrary series files: exit status 0 or 1 within a time limit."""
import os

import rqlib
from props import common, l2gen, ws

ID = "C11"
NEEDS_BINARY = True
TRUSTED_BASE = common.BASE_TRUSTED + [
    "C11: stack depth is not modelled (the parser has no recursion; the model cannot exhibit a stack overflow); allocation is bounded in the implementation by an address-space limit of 1 GiB during the run, not by a theorem",
    "C11: error payload text is not modelled, only the error kind",
]


def encode(c):
    return "parse %d %d %s" % (c["strip"], c["wh"], l2gen.hexs(c["data"]))


def shrink_cands(c):
    d = c["data"]
    lines = d.split(b"\n")
    for i in range(len(lines)):
        yield dict(c, data=b"\n".join(lines[:i] + lines[i + 1:]))
    for i in range(len(d)):
        if len(d) > 60 and i % 7:
            continue
        yield dict(c, data=d[:i] + d[i + 1:])
    if c["strip"]:
        yield dict(c, strip=0)


def describe(c, out):
    yield "bytes<%d" % (1 << max(0, len(c["data"]).bit_length()))
    yield out.split()[0] + ((" " + out.split()[1]) if out.startswith("ERR") else "")
    yield "strip=%d" % c["strip"]


def trivial(c, out):
    return out.startswith("ERR") and len(c["data"]) < 4


def tool_runs(ctx, datas, rng):
    """whole tool on patch bytes: exit status must be 0 or 1"""
    bad = 0
    n = 0
    for data in datas:
        n += 1
        d = ws.make_workspace({"f": (b"aaa\nbbb\nccc\n", None), "a/f": (b"x\n", None)}, {"p.patch": data},
                              b"p.patch -p%d\n" % rng.choice([0, 1, 1, 2]), prefix="c11")
        args = ["-a"] + rng.choice([[], ["-q"], ["--threads", "1"], ["--threads", "2", "-q"], ["-F", "2"], ["--dry-run"]])
        rc, out = ws.run_push(ctx.binary, d, args, timeout=15)
        if rc not in (0, 1):
            bad += 1
            if bad <= 2:
                ctx.violation({"kind": "tool-crash-or-hang", "patch_hex": l2gen.hexs(data), "args": args,
                               "exit": rc, "output_tail": out[-600:].decode("latin-1")})
        ws.cleanup(d)
    return n


def big_patch_runs(ctx):
    """patches that are perfectly parseable but large in one dimension - the depth of anything recursive must not
    depend on it: (a) 150000 names linked into one chain through file patches with two names, in the order that
    makes the distributor's parent chain as long as the number of names (seeded C11-h: a recursive find overflowed
    the stack of the pool thread), (b) one file patch with 60000 hunks, (c) one hunk of 200000 lines"""
    n = 150000
    chain = b"".join(b"--- f%d\n+++ f%d\n@@ -1 +1 @@\n-a\n+b\n" % (i, i) for i in range(n + 1))
    chain += b"".join(b"--- f%d\n+++ f%d\n@@ -1 +1 @@\n-a\n+b\n" % (k - 1, k) for k in range(n, 0, -1))
    chain += b"--- f%d\n+++ g\n@@ -1 +1 @@\n-a\n+b\n" % n
    hunks = b"--- f\n+++ f\n" + b"".join(b"@@ -%d +%d @@\n-l%d\n+m%d\n" % (i, i, i, i) for i in range(1, 60001))
    long_hunk = b"--- f\n+++ f\n@@ -1,200000 +1,200000 @@\n" + b"".join(b" c%d\n" % i for i in range(199999)) + b"-x\n+y\n"
    runs = 0
    for label, data in (("chain of 150000 related names", chain), ("60000 hunks", hunks), ("hunk of 200000 lines", long_hunk)):
        for args in (["-a", "-q", "--dry-run", "--threads", "2"], ["-a", "-q", "--threads", "1"]):
            d = ws.make_workspace({"f": (b"aaa\nbbb\nccc\n", None)}, {"p0.patch": b"--- a/missing\n+++ b/missing\n@@ -1 +1 @@\n-x\n+y\n", "p1.patch": data},
                                  b"p0.patch\np1.patch -p0\n", prefix="c11big")
            rc, out = ws.run_push(ctx.binary, d, args, timeout=120)
            runs += 1
            if rc not in (0, 1):
                ctx.violation({"kind": "tool-crash-or-hang", "what": label, "args": args, "exit": rc, "patch_bytes": len(data),
                               "how_to_rebuild": "tools/props/C11.py big_patch_runs builds the patch (too large to store)",
                               "output_tail": out[-600:].decode("latin-1")})
            ws.cleanup(d)
    return runs


def series_runs(ctx, rng, count):
    bad = 0
    toks = [b"p.patch", b"-p1", b"-p", b"1", b"-R", b"--strip=2", b"--strip", b"-pX", b"-p-1", b"-p99999999999999999999",
            b"#c", b"", b" ", b"\t", b"\xff\xfe", b"--", b"-x", b"--reverse", b"q.patch", b"-p1 -p2", b"\"p.patch\""]
    # fixed cases first: a count that overflows when added to the applied patches; a strip level in the billions
    fixed = [(b"p.patch\nq.patch\n", b"p.patch\n", ["18446744073709551615"]),
             (b"p.patch\nq.patch\n", b"p.patch\n", ["9223372036854775807", "-q"]),
             (b"p.patch -p4000000000\n", None, ["-a"]),
             (b"p.patch -p18446744073709551615\n", None, ["-a", "-q"]),
             (b"p.patch --strip=18446744073709551616\n", None, ["-a"])]
    for series, applied, args in fixed:
        d = ws.make_workspace({"f": (b"aaa\n", None)}, {"p.patch": b"--- a/f\n+++ b/f\n@@ -1 +1 @@\n-aaa\n+bbb\n", "q.patch": b""},
                              series, applied, prefix="c11s")
        rc, out = ws.run_push(ctx.binary, d, args, timeout=15)
        if rc not in (0, 1):
            bad += 1
            ctx.violation({"kind": "tool-crash-or-hang-on-series", "series_hex": l2gen.hexs(series),
                           "applied_hex": l2gen.hexs(applied) if applied is not None else None, "args": args,
                           "exit": rc, "output_tail": out[-600:].decode("latin-1")})
        ws.cleanup(d)
    for _ in range(count):
        lines = []
        for _ in range(rng.randint(0, 4)):
            lines.append(b" ".join(rng.choice(toks) for _ in range(rng.randint(0, 4))))
        if rng.random() < 0.4:
            # lines that are not empty but hold no word
            lines.insert(rng.randint(0, len(lines)), rng.choice([b" ", b"   ", b"\t", b" \t ", b"\r", b"\x0b", b"\x0c "]))
        series = b"\n".join(lines) + (b"\n" if rng.random() < 0.8 else b"")
        if rng.random() < 0.2:
            series = bytes(rng.randrange(256) for _ in range(rng.randint(0, 30)))
        applied = None
        if rng.random() < 0.3:
            applied = rng.choice([b"p.patch\n", b"\xff\n", b"p.patch\nq.patch\nr.patch\n", b"", b"x -p", b"p.patch\n \n", b"\t\n", b"   "])
        d = ws.make_workspace({"f": (b"aaa\n", None)}, {"p.patch": b"--- a/f\n+++ b/f\n@@ -1 +1 @@\n-aaa\n+bbb\n", "q.patch": b""},
                              series, applied, prefix="c11s")
        args = rng.choice([["-a"], [], ["2"], ["p.patch"], ["-a", "-q"], ["nosuch"], ["0"]])
        rc, out = ws.run_push(ctx.binary, d, args, timeout=15)
        if rc not in (0, 1):
            bad += 1
            if bad <= 2:
                ctx.violation({"kind": "tool-crash-or-hang-on-series", "series_hex": l2gen.hexs(series),
                               "applied_hex": l2gen.hexs(applied) if applied is not None else None, "args": args,
                               "exit": rc, "output_tail": out[-600:].decode("latin-1")})
        ws.cleanup(d)
    return count


def run(ctx):
    rng = ctx.rng
    thorough = ctx.tier == "thorough"
    k = 6 if thorough else 1
    # the implementation side runs under an address-space limit: an allocation out of proportion aborts
    real = ctx.harness
    wrapper = os.path.join(rqlib.CACHE, "harness-limited.sh")
    with open(wrapper, "w") as f:
        f.write("#!/bin/bash\nulimit -v 1048576\nexec %s\n" % real)
    os.chmod(wrapper, 0o755)
    ctx.harness = wrapper
    corpus = [b"--- a/f\n+++ b/f\n@@ -1,18446744073709551615 +1 @@\n-b\n+c\n",
              b"--- a/f\n+++ b/f\n@@ -9223372036854775808,1 +1 @@\n-b\n+c\n",
              b"--- a/f\n+++ b/f\n@@ -9223372036854775807,1 +1 @@\n-b\n+c\n",
              b"--- a/f\n+++ b/f\n@@ -1,9223372036854775807 +1,9223372036854775807 @@\n a\n",
              b"--- a/f\n+++ b/f\n@@ -1,3 +1,3 @@\n a\n b\n c\n",            # context only (seeded C11-a)
              b"--- a/f\n+++ b/f\n@@ -4611686018427387904,2 +5,2 @@\n aaa\n-b\n+c\n",
              b"--- a/f\n+++ b/f\n@@ -1,2 +0,0 @@\n-aaa\n-bbb\n@@ -3 +1 @@\n-ccc\n+CCC\n",   # seeded C11-d: not a deletion
              b"--- a/f\n+++ b/f\n@@ -0,0 +1 @@\n+top\n@@ -2 +3 @@\n-bbb\n+BBB\n",            # not a creation
              b"--- a/f\n+++ b/f\n@@ -1,2 +1,2 @@\n aaa\n" + l2gen.LONG_UTF8 + b"\n",          # seeded C11-e: long non-ASCII line in an error
              b"--- a/f\n+++ b/f\n@@ -1,2 +1,2 @@\n aaa\n" + l2gen.LONG_UTF8_ODD + b"\n",
              b"--- a/f\n+++ b/f\n@@ -1 +1 " + l2gen.LONG_UTF8 + b"\n-a\n+b\n",
              b"--- a/f\n+++ b/f\n@@ -99999999999999999,3 +99999999999999999,3 @@\n xxx\n-aaa\n+AAA\n yyy\n",   # hint search, huge line
              # seeded C11-f: a hunk applied at an offset, then a hunk that states the largest line number
              b"--- a/f\n+++ b/f\n@@ -1 +1 @@\n-bbb\n+BBB\n@@ -9223372036854775807 +9223372036854775807 @@\n-zzz\n+yyy\n",
              b"--- a/f\n+++ b/f\n@@ -1 +1 @@\n-ccc\n+CCC\n@@ -9223372036854775806,0 +9223372036854775807 @@\n+yyy\n",
              b"", b"\n", b"@@ -1 +1 @@\n", b"--- \n+++ \n@@ -0,0 +1 @@\n+x\n", b"diff --git a b\nGIT binary patch\n"]
    cases = {"corpus": [{"strip": s, "wh": 0, "data": d} for d in corpus for s in (0, 1)]}
    cases["grammar"] = [{"strip": rng.choice([0, 1, 1, 2, 3]), "wh": rng.choice([0, 1]), "data": l2gen.gen_patch(rng)} for _ in range(2500 * k)]
    cases["context-free-multi-hunk"] = [{"strip": rng.choice([0, 1]), "wh": 0, "data": l2gen.gen_ctxfree_multi(rng)} for _ in range(300 * k)]
    cases["line-soup"] = [{"strip": rng.choice([0, 1]), "wh": rng.choice([0, 1]), "data": l2gen.gen_soup(rng)} for _ in range(2000 * k)]
    fx = l2gen.fixtures()
    cases["mutated-fixtures"] = [{"strip": rng.choice([0, 1]), "wh": 1, "data": l2gen.mutate(rng, rng.choice(fx))} for _ in range(1200 * k)]
    cases["mutated-grammar"] = [{"strip": 1, "wh": 0, "data": l2gen.mutate(rng, l2gen.gen_patch(rng))} for _ in range(1200 * k)]
    trunc = []
    for _ in range(3 * k):
        p = l2gen.gen_patch(rng)
        trunc += [{"strip": 1, "wh": 1, "data": p[:i]} for i in range(len(p) + 1)]
    cases["truncations-at-every-byte"] = trunc
    # bounded-exhaustive: all sequences of <= 2 (quick) / 3 (thorough) meaningful lines
    import itertools
    ex = []
    for n in range(0, (4 if thorough else 3)):
        for combo in itertools.product(l2gen.MEANINGFUL, repeat=n):
            ex.append({"strip": 1, "wh": 0, "data": b"".join(combo)})
    cases["exhaustive-meaningful-lines"] = ex
    if os.environ.get("RQ_NO_CORPUS"):
        del cases["corpus"]
    try:
        for label, cs in cases.items():
            common.differential(ctx, cs, encode, None, None, shrink_cands, label, trivial, describe)
            # statement: the implementation neither panicked nor died
            outs = ctx.impl([encode(c) for c in cs[:0]])
    finally:
        ctx.harness = real
    # the no-crash statement on the implementation's outputs is part of the comparison: the model never
    # answers PANIC / <no output>, so any such output is a mismatch; make it a violation with the input
    for v in ctx.violations:
        p = v[0]
        if p.get("kind") == "correspondence-mismatch" and (p["implementation"].startswith("PANIC") or "<no output>" in p["implementation"]):
            p["kind"] = "parser-crashed"
            ctx.violations[ctx.violations.index(v)] = (p, False)
    sample = [c["data"] for lab in ("corpus", "context-free-multi-hunk", "grammar", "mutated-grammar") for c in cases.get(lab, [])[: (150 if thorough else 40)]]
    n_tool = tool_runs(ctx, sample, rng)
    n_series = series_runs(ctx, rng, 300 if thorough else 60)
    ctx.coverage["big_patch_runs"] = big_patch_runs(ctx)
    ctx.coverage["tool_runs"] = n_tool
    ctx.coverage["series_file_runs"] = n_series
    ctx.coverage["evaluations"] = ctx.coverage.get("evaluations", 0) + n_tool + n_series
    common.finish(ctx, "byte strings: corpus of past crashes; grammar-generated patches (all header dialects, git "
                       "metadata, numeric fields up to and beyond 2^64, quoted names, tags); soups of meaningful lines; "
                       "byte-level mutations of the parsing fixtures and of generated patches; truncation of valid "
                       "patches at every byte; all sequences of <=2 (quick) / <=3 (thorough) meaningful lines. "
                       "distinct = distinct inputs; trivial = error on an input shorter than 4 bytes. Plus whole-tool "
                       "runs (exit status must be 0 or 1 within 15 s) on patch and series files.")
    ws.cleanup_all()


def replay(ctx, payload):
    if "case" in payload:
        c = payload["case"]
        if isinstance(c.get("data"), str):
            c["data"] = c["data"].encode("latin-1")
        common.differential(ctx, [c], encode, None, None, None, "replay", trivial, describe)
        common.finish(ctx, "replay")
    else:
        run(ctx)
