"""C12 - write-then-parse preserves a parsed patch; writing is a fixed point.
Theorems: coq/Properties/C12.v.  Tie: model vs implementation of parse -> write -> parse -> write on the
same bytes (in-process), and the statement itself checked on every implementation output: p2 describes
the same file patches as p1 (kind, names, rename flag, modes, hashes, per hunk both sides and both start
lines) and w2 = w1 byte for byte."""
import re

import rqlib
from props import common, l2gen

ID = "C12"
TRUSTED_BASE = common.BASE_TRUSTED + [
    "C12: 'describes the same file patches' compares kind, names, rename flag, modes, hashes and per hunk both line sequences, both start lines and the function text; the split of a hunk into prefix/suffix context is not compared (the writer may lay out ' '/'-'/'+' lines differently)",
]

RT = re.compile(r"OK p1=(.*) w1=(\S+) p2=(.*) w2=(\S+)$")


def norm(p):
    # drop prefix/suffix context counts and the header (the header is garbage text, compared through w1 = w2)
    p = re.sub(r"<(-?\d+) (-?\d+) \d+ \d+ ", r"<\1 \2 ", p)
    return p


def problem(out):
    """None if the statement holds on this implementation output, else (class, text)"""
    if out.startswith("SKIP"):
        return None
    if not out.startswith("OK"):
        return ("crash", out[:80])
    m = RT.match(out)
    if not m:
        return ("written-form-not-accepted", out[-120:])
    p1, w1, p2, w2 = m.groups()
    if norm(p1) != norm(p2):
        f1 = re.findall(r"\{[^}]*\}", p1)
        f2 = re.findall(r"\{[^}]*\}", p2)
        if len(f1) != len(f2):
            lost = [f for f in f1 if " hunks=0" in f and " ren0 " in f and " op- np- oh=/ nh=/" in f]
            if len(f1) - len(f2) == len(lost) and [f for f in f1 if f not in lost] == [x for x in f1 if x not in lost]:
                return ("known:hunkless-without-metadata", "a file patch without hunks, rename, modes and hashes is dropped")
            return ("file-patch-count", "%d -> %d" % (len(f1), len(f2)))
        for a, bb in zip(f1, f2):
            if norm(a) != norm(bb):
                return ("file-patch-differs", a[:200] + "  ->  " + bb[:200])
        return ("header-differs", "")
    if w1 != w2:
        return ("not-a-fixed-point", "")
    return None


def encode(c):
    return "rt %s" % l2gen.hexs(c["data"])


def classify(c, impl_out, model_out):
    pr = problem(impl_out)
    if pr and pr[0].startswith("known:") and impl_out == model_out:
        return "hunkless-without-metadata: a file patch without hunks whose only extended header lines are not reproduced by the writer (copy from/to, lone rename from, similarity index) is lost on write -> re-parse; e.g. 'diff --git a b\\ncopy from x\\ncopy to y\\n'"
    return None


def shrink_cands(c):
    d = c["data"]
    lines = d.split(b"\n")
    for i in range(len(lines)):
        yield dict(c, data=b"\n".join(lines[:i] + lines[i + 1:]))
    for i in range(0, len(d), max(1, len(d) // 40)):
        yield dict(c, data=d[:i] + d[i + 1:])


def describe(c, out):
    yield out.split()[0] + ((" " + out.split()[2]) if out.startswith("SKIP") else "")
    pr = problem(out)
    if pr:
        yield "problem:" + pr[0]
    m = RT.match(out)
    if m:
        yield "filepatches=%d" % len(re.findall(r"\{[^}]*\}", m.group(1)))
        if "6f206e65776c696e65" in m.group(2):
            yield "has-no-newline-tag"
        if b'"'.hex() in m.group(2)[:400]:
            yield "has-quoted-name"


def trivial(c, out):
    return not out.startswith("OK")


def run(ctx):
    rng = ctx.rng
    thorough = ctx.tier == "thorough"
    k = 6 if thorough else 1
    corpus = [
        b"diff --git a/f b/f\ndeleted file mode 100755\n--- a/f\n+++ /dev/null\n@@ -1 +0,0 @@\n-x\n",          # P15-1
        b"--- \"a/x y\"\n+++ \"b/x y\"\n@@ -1 +1 @@\n-a\n+b\n",                                                 # P15-2
        b"--- a/\xff\xfe\n+++ b/\xff\xfe\n@@ -1 +1 @@\n-a\n+b\n",
        b"--- a/f\n+++ b/f\n@@ -5,0 +6,2 @@\n+a\n+b\n@@ -9,2 +11,0 @@\n-a\n-b\n",                               # P15-3 / seeded C12-a, C13-a
        b"--- a/f\n+++ b/f\n@@ -2,0 +3,2 @@\n+x\n+y\n@@ -10,0 +13 @@\n+z\n",
        b"--- a/new\n+++ b/new\n@@ -0,0 +1 @@\n+hello\n",                                                       # P15-4
        b"--- \"\"\n+++ b/f\n@@ -1 +1 @@\n-a\n+b\n",                                                            # P15-5
        b"diff --git a b\ncopy from x\ncopy to y\n",                                                            # known finding
        b"--- a/f\n+++ b/f\n@@ -1,2 +1,2 @@\n a\n-b\n\\ No newline at end of file\n+c\n\\ No newline at end of file\n",
        b"diff --git a/f b/g\nrename from f\nrename to g\n",
        b"diff --git a/f b/f\nold mode 100644\nnew mode 100755\n",
        b"diff --git a/f b/f\nnew file mode 100644\nindex 0000000..e69de29\n",
    ]
    def long_hunk(nr, na, lead=1, trail=1, equal_at=None):
        # one hunk that replaces nr lines by na lines with no line in common (seeded C12-j: the writer's search for the
        # next common line gave up after 64 lines on each side); equal_at = (i, j): old line i and new line j are equal
        old = [b"old line %d" % i for i in range(nr)]
        new = [b"new line %d" % i for i in range(na)]
        if equal_at:
            new[equal_at[1]] = old[equal_at[0]]
        body = b"".join(b" ctx %d\n" % i for i in range(lead)) + b"".join(b"-" + l + b"\n" for l in old) + \
            b"".join(b"+" + l + b"\n" for l in new) + b"".join(b" end %d\n" % i for i in range(trail))
        return b"--- a/f\n+++ b/f\n@@ -1,%d +1,%d @@\n" % (lead + nr + trail, lead + na + trail) + body
    corpus += [long_hunk(70, 70), long_hunk(66, 130, 0, 2), long_hunk(200, 65, 3, 0), long_hunk(100, 100, 1, 1, (80, 90)),
               long_hunk(70, 70, 1, 1, (66, 3))]
    cases = {"corpus": [{"data": d} for d in corpus],
             "long-replacements": [{"data": long_hunk(rng.randint(1, 140), rng.randint(1, 140), rng.randint(0, 3), rng.randint(0, 3),
                                                      (rng.randrange(1), rng.randrange(1)) if rng.random() < 0.0 else None)}
                                   for _ in range(40 * k)],
             "grammar": [{"data": l2gen.gen_patch(rng)} for _ in range(3500 * k)],
             "line-soup": [{"data": l2gen.gen_soup(rng)} for _ in range(1500 * k)],
             "mutated-fixtures": [{"data": l2gen.mutate(rng, rng.choice(l2gen.fixtures()))} for _ in range(1000 * k)],
             "fixtures": [{"data": d} for d in l2gen.fixtures()]}
    import os
    if os.environ.get("RQ_NO_CORPUS"):
        del cases["corpus"]
    for label, cs in cases.items():
        common.differential(ctx, cs, encode, None, classify, shrink_cands, label, trivial, describe)
        outs = ctx.impl([encode(c) for c in cs])
        bad = 0
        for c, o in zip(cs, outs):
            pr = problem(o)
            if not pr:
                continue
            if pr[0].startswith("known:"):
                ctx.known_finding(classify(c, o, o))
                continue
            bad += 1
            if bad <= 2:
                def fails(x, cls=pr[0]):
                    q = problem(ctx.impl([encode(x)])[0])
                    return q is not None and q[0] == cls
                small = rqlib.shrink(c, fails, shrink_cands)
                so = ctx.impl([encode(small)])[0]
                ctx.violation({"kind": "roundtrip-" + pr[0], "generator": label, "case": small, "case_line": encode(small),
                               "patch_text": small["data"].decode("latin-1"), "implementation": so[:3000],
                               "why": str(problem(so))})
        ctx.coverage["statement_checks"] = ctx.coverage.get("statement_checks", 0) + len(cs)
    common.finish(ctx, "byte strings as for C11 (grammar-generated patches in every header dialect, git metadata subsets, "
                       "hunks with empty sides, no-newline tags in any position, TAB/empty context lines, garbage between "
                       "file patches, quoted and non-UTF-8 names; line soups; mutated fixtures; the 12 parsing fixtures). "
                       "non-trivial = accepted by the parser (the statement quantifies over those).")


def replay(ctx, payload):
    c = payload.get("case")
    if not c:
        return run(ctx)
    if isinstance(c.get("data"), str):
        c["data"] = c["data"].encode("latin-1")
    common.differential(ctx, [c], encode, None, classify, None, "replay", trivial, describe)
    o = ctx.impl([encode(c)])[0]
    pr = problem(o)
    if pr and not pr[0].startswith("known:"):
        ctx.violation({"kind": "roundtrip-" + pr[0], "case": c, "case_line": encode(c), "implementation": o[:3000]})
    common.finish(ctx, "replay")
