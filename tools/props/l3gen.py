"""Workspaces (tree + series + patches), the real binary and the L3 model on them."""
import copy
import os
import stat

import rqlib
from props import l1gen, l2gen, ws as wsmod

UMASK = os.umask(0)
os.umask(UMASK)
DEFAULT_MODE = 0o666 & ~UMASK


def hx(b):
    return b.hex() if b else "-"


# ---------------------------------------------------------------------------------------------
# patch text

def lines_of(data):
    out = data.split(b"\n")
    res = [l + b"\n" for l in out[:-1]]
    if out[-1] != b"":
        res.append(out[-1])
    return res


def hunk_text(a, bl, h, drop_counts_of_one=False):
    """unified hunk from a hunk structure over line lists (lines with their endings)"""
    def rng(start, cnt):
        s = start + 1 if cnt else start
        if cnt == 1 and drop_counts_of_one:
            return b"%d" % s
        return b"%d,%d" % (s, cnt)
    rem, add = h["rem"], h["add"]
    out = [b"@@ -" + rng(h["rt"], len(rem)) + b" +" + rng(h["at"], len(add)) + b" @@\n"]
    import difflib
    sm = difflib.SequenceMatcher(None, rem, add, autojunk=False)

    def emit(c, l):
        if l.endswith(b"\n"):
            out.append(c + l)
        else:
            out.append(c + l + b"\n\\ No newline at end of file\n")
    for tag, i1, i2, j1, j2 in sm.get_opcodes():
        if tag == "equal":
            for l in rem[i1:i2]:
                emit(b" ", l)
        else:
            for l in rem[i1:i2]:
                emit(b"-", l)
            for l in add[j1:j2]:
                emit(b"+", l)
    return b"".join(out)


def file_patch_text(rng, old_name, new_name, a, bl, ctx, style="plain", extra=b"", hunks=None):
    """old_name/new_name: bytes or None (= /dev/null); a, bl: line lists"""
    hs = hunks if hunks is not None else l1gen.diff_hunks(a, bl, ctx)
    o = old_name if old_name is not None else b"/dev/null"
    n = new_name if new_name is not None else b"/dev/null"
    head = b""
    if style == "git":
        head += b"diff --git " + (old_name or new_name) + b" " + (new_name or old_name) + b"\n" + extra
        if rng.random() < 0.5:
            head += b"index 1234567..89abcde 100644\n"
    elif style == "ts":
        o += b"\t2020-01-01 00:00:00.000000000 +0000"
        n += b"\t2020-01-02 00:00:00.000000000 +0000"
    elif style == "garbage":
        head += b"Index: %s\n===================================================================\n" % (new_name or old_name)
    body = b"".join(hunk_text(a, bl, h, rng.random() < 0.5) for h in hs)
    if style == "git" and not hs:
        return head
    return head + b"--- " + o + b"\n+++ " + n + b"\n" + body


# ---------------------------------------------------------------------------------------------
# workspace generation

WORDS = [b"alpha\n", b"beta\n", b"gamma\n", b"delta\n", b"x\n", b"\n", b"}\n", b"{\n", b"end\n"]


def rand_lines(rng, n, final_newline=True):
    ls = [rng.choice(WORDS) for _ in range(n)]
    if ls and not final_newline:
        ls[-1] = ls[-1].rstrip(b"\n") or b"z"
    return ls


def mutate_lines(rng, a):
    bl = list(a)
    for _ in range(rng.randint(1, 3)):
        k = rng.random()
        if k < 0.3 and bl:
            del bl[rng.randrange(len(bl))]
        elif k < 0.65:
            bl.insert(rng.randint(0, len(bl)), rng.choice(WORDS + [b"new line\n", b"other\n"]))
        elif bl:
            bl[rng.randrange(len(bl))] = rng.choice([b"changed\n", b"CHANGED\n", b"alpha\n"])
    # keep "no final newline" only at the end
    bl = [l if l.endswith(b"\n") or i == len(bl) - 1 else l + b"\n" for i, l in enumerate(bl)]
    return bl


def gen_workspace(rng, npatches=None, fail_prob=0.4, features=("modify", "create", "delete", "rename", "mode", "dup", "reverse", "strip", "newdir"), nfail=1):
    names = [b"f", b"g.c", b"dir/h.txt", b"dir/sub/k", b"e"]
    rng.shuffle(names)
    nfiles = rng.randint(1, 4)
    tree = {}
    for n in names[:nfiles]:
        tree[n] = (rand_lines(rng, rng.randint(0, 10), rng.random() < 0.85), rng.choice([0o644, 0o644, 0o755, 0o600]))
    init = {n: (b"".join(c), m) for n, (c, m) in tree.items()}
    dirs = []
    if rng.random() < 0.2:
        dirs.append(b"emptydir")
    patches = {}
    series_lines = []
    npatches = npatches or rng.randint(1, 6)
    fail_at = rng.randrange(npatches) if rng.random() < fail_prob else None
    fail_set = set() if fail_at is None else {fail_at} | {rng.randrange(npatches) for _ in range(nfail - 1)}
    for pi in range(npatches):
        pname = b"p%d.patch" % pi
        if rng.random() < 0.1:
            pname = b"sub/p%d.diff" % pi
        strip = 1
        prefix_a, prefix_b = b"a/", b"b/"
        opts = b""
        if "strip" in features and rng.random() < 0.3:
            strip = rng.choice([0, 2, 1])
            prefix_a = prefix_b = b"x/" * strip if strip != 1 else b"a/"
            if strip == 1:
                prefix_b = b"b/"
            opts = rng.choice([b" -p%d" % strip, b" -p %d" % strip, b" --strip=%d" % strip, b" --strip %d" % strip])
        reverse = "reverse" in features and rng.random() < 0.15
        if reverse:
            opts += rng.choice([b" -R", b" --reverse"])
        text = b""
        if rng.random() < 0.3:
            text += b"Description of patch %d\n\nmore text\n" % pi
        nent = rng.randint(1, 3)
        new_tree = dict(tree)
        for ei in range(nent):
            kinds = [k for k in ("modify", "modify", "modify", "modify", "create", "create", "delete", "delete", "rename", "rename", "mode", "mode", "rename_odd")
                     if k in features or k == "modify" or (k == "rename_odd" and "rename" in features)]
            kind = rng.choice(kinds)
            existing = [n for n in new_tree]
            style = rng.choice(["plain", "plain", "ts", "git", "garbage"])
            ctx = rng.choice([0, 1, 2, 3, 3])
            entry = b""
            if kind == "modify" and existing:
                n = rng.choice(existing)
                a, m = new_tree[n]
                bl = mutate_lines(rng, a)
                if bl == a:
                    bl = a + [b"appended\n"]
                on, nn = prefix_a + n, prefix_b + n
                r = rng.random()
                gone = [x for x in init if x not in new_tree]
                if r < 0.1:
                    on = prefix_a + n + b".orig"        # differing names: the new name exists
                elif r < 0.3 and gone:
                    # differing names, the old one was on disk at the start and was deleted or renamed away
                    # earlier in the series (in memory within one invocation, on disk across invocations)
                    on = prefix_a + rng.choice(gone)
                elif 0.3 <= r < 0.37 and len(existing) > 1:
                    # differing names that BOTH exist: the old one is patched, also by a -R entry (seeded C16-h) - the
                    # hunks were made for the other file, so this usually fails; what matters is which file it is tried on
                    on = prefix_a + rng.choice([x for x in existing if x != n])
                if b"/" in n and rng.random() < 0.15:
                    # another spelling of the same path: the files are kept by Path, "a//b" and "a/./b" are "a/b"
                    alt = n.replace(b"/", rng.choice([b"//", b"/./", b"///"]), 1)
                    if rng.random() < 0.5:
                        on = on[:len(on) - len(n)] + alt if on.endswith(n) else on
                    nn = nn[:len(nn) - len(n)] + alt
                if reverse:
                    entry = file_patch_text(rng, on, nn, bl, a, ctx, style)
                else:
                    entry = file_patch_text(rng, on, nn, a, bl, ctx, style)
                new_tree[n] = (bl, m)
            elif kind == "create":
                cands = [x for x in [b"new1", b"dir/new2", b"newdir/n3", b"newdir/deep/n4", b"f", b"e"] if x not in new_tree]
                if "newdir" not in features:
                    cands = [x for x in cands if not x.startswith(b"newdir")]
                if not cands:
                    continue
                n = rng.choice(cands)
                bl = rand_lines(rng, rng.randint(1, 4), rng.random() < 0.8)
                old = None if rng.random() < 0.6 else prefix_a + n
                extra = b"new file mode 100%o\n" % rng.choice([0o644, 0o755]) if style == "git" and rng.random() < 0.7 else b""
                mode = 0o755 if b"100755" in extra else None
                if reverse:
                    entry = file_patch_text(rng, prefix_a + n, None if old is None else prefix_b + n, bl, [], ctx, style,
                                            extra.replace(b"new file", b"deleted file"))
                else:
                    entry = file_patch_text(rng, old, prefix_b + n, [], bl, ctx, style, extra)
                new_tree[n] = (bl, mode if mode is not None else -1)
            elif kind == "delete" and existing:
                n = rng.choice(existing)
                a, m = new_tree[n]
                if not a:
                    continue
                new = None if rng.random() < 0.7 else prefix_b + n
                if reverse:
                    entry = file_patch_text(rng, None if new is None else prefix_a + n, prefix_b + n, [], a, ctx, style)
                else:
                    entry = file_patch_text(rng, prefix_a + n, new, a, [], ctx, style)
                if new is None:
                    del new_tree[n]
                else:
                    new_tree[n] = ([], m)
            elif kind == "rename" and existing and not reverse:
                n = rng.choice(existing)
                a, m = new_tree[n]
                cands = [x for x in [b"renamed", b"dir/moved.c", b"newdir/r"] if x not in new_tree]
                if not cands:
                    continue
                n2 = rng.choice(cands)
                bl = mutate_lines(rng, a) if rng.random() < 0.6 else a
                extra = b"similarity index 90%\nrename from " + n + b"\nrename to " + n2 + b"\n"
                entry = file_patch_text(rng, prefix_a + n, prefix_b + n2, a, bl, ctx, "git", extra)
                del new_tree[n]
                new_tree[n2] = (bl, m)
            elif kind == "rename_odd" and existing and not reverse:
                # renames the ordinary generator never makes: onto an existing (empty or not) file, of a
                # missing source, onto itself
                n = rng.choice(existing)
                a, m = new_tree[n]
                which = rng.choice(["onto", "missing", "self"])
                if which == "onto":
                    others = [x for x in existing if x != n]
                    if not others:
                        continue
                    n2 = rng.choice(others)
                    extra = b"similarity index 100%\nrename from " + n + b"\nrename to " + n2 + b"\n"
                    entry = b"diff --git " + prefix_a + n + b" " + prefix_b + n2 + b"\n" + extra
                    if not new_tree[n2][0]:
                        del new_tree[n]
                        new_tree[n2] = (a, m)
                elif which == "missing":
                    extra = b"similarity index 100%\nrename from nosuch\nrename to " + n + b".moved\n"
                    entry = b"diff --git " + prefix_a + b"nosuch " + prefix_b + n + b".moved\n" + extra
                else:
                    extra = b"similarity index 100%\nrename from " + n + b"\nrename to " + n + b"\n"
                    bl = mutate_lines(rng, a)
                    entry = file_patch_text(rng, prefix_a + n, prefix_b + n, a, bl, ctx, "git", extra)
                    new_tree[n] = (bl, m)
            elif kind == "mode" and existing and not reverse:
                n = rng.choice(existing)
                a, m = new_tree[n]
                nm = rng.choice([0o755, 0o644])
                extra = b"old mode 100%o\nnew mode 100%o\n" % (m if m > 0 else 0o644, nm)
                bl = mutate_lines(rng, a) if rng.random() < 0.5 else a
                entry = file_patch_text(rng, prefix_a + n, prefix_b + n, a, bl, ctx, "git", extra)
                new_tree[n] = (bl, nm)
            else:
                continue
            text += entry
            if "dup" in features and kind == "modify" and rng.random() < 0.15 and existing:
                # a second entry for the same file in the same patch
                a, m = new_tree[n]
                bl = mutate_lines(rng, a)
                if reverse:
                    text += file_patch_text(rng, prefix_a + n, prefix_b + n, bl, a, ctx, "plain")
                else:
                    text += file_patch_text(rng, prefix_a + n, prefix_b + n, a, bl, ctx, "plain")
                new_tree[n] = (bl, m)
        if pi in fail_set and text:
            # corrupt: make some hunk not match
            ls = text.split(b"\n")
            idx = [i for i, l in enumerate(ls) if l[:1] in (b" ", b"-") and not l.startswith(b"---")]
            if idx:
                for i in rng.sample(idx, min(len(idx), rng.randint(1, 2))):
                    ls[i] = ls[i][:1] + b"DOES NOT MATCH"
                text = b"\n".join(ls)
            gone_in_dir = [x for x in init if b"/" in x and x not in new_tree]
            if rng.random() < 0.25 or (gone_in_dir and rng.random() < 0.5):
                # one more failing file patch: a file that is not there, in a directory that is not there either (its
                # reject is bypassed; the rejects of the others must still be written) - before or after the rest
                miss = b"--- " + prefix_a + b"nodir/x%d\n+++ " % pi + prefix_b + b"nodir/x%d\n@@ -1 +1 @@\n-q\n+r\n" % pi
                if gone_in_dir and rng.random() < 0.7:
                    # ... or a file that an earlier patch of the series deleted or moved away, in a directory that the
                    # push may have emptied by then: whether its reject is written depends on when directories are
                    # cleaned - the same for every thread count (seeded C06-h)
                    g = rng.choice(gone_in_dir)
                    miss = b"--- " + prefix_a + g + b"\n+++ " + prefix_b + g + b"\n@@ -1 +1 @@\n-q\n+r\n"
                if text.startswith((b"diff ", b"--- ", b"Index: ")) and rng.random() < 0.5:
                    text = miss + text
                else:
                    text = text + (b"" if text.endswith(b"\n") else b"\n") + miss
        patches[pname] = text
        series_lines.append(pname + opts)
        tree = new_tree
    series = b""
    for l in series_lines:
        if rng.random() < 0.1:
            series += rng.choice([b"# comment\n", b"\n", b"#\n", b"   \n", b"\t\n", b" \t \n"])
        series += (b"  " if rng.random() < 0.05 else b"") + l + b"\n"
    w = {"files": init, "dirs": dirs, "series": series, "applied": None, "patches": patches}
    add_links(w)
    return w


def gen_repetitive_workspace(rng):
    """one file made of repeated identical blocks and a series of 2-5 patches against it whose line numbers are
    stale by a multiple of the block length or a little more: where a hunk lands depends only on the file and the
    hunk, never on what the same invocation did before"""
    blk = [b"blk", b"item", b"end"][: rng.randint(2, 3)]
    nblocks = rng.randint(3, 6)
    lines = [b"start"]
    for i in range(nblocks):
        lines += blk
        if rng.random() < 0.5:
            lines.append(b"mid%d" % i)
    lines += [b"uniq-a", b"uniq-b", b"uniq-c", b"last"]
    cur = list(lines)
    patches, series = {}, b""
    for pi in range(rng.randint(2, 5)):
        ctx = rng.randint(0, 2)
        i = rng.randrange(len(cur))
        lo, hi = max(0, i - ctx), min(len(cur), i + ctx + 1)
        new = cur[i].upper() if cur[i] != cur[i].upper() else cur[i] + b"!"
        shift = rng.choice([0, 0, len(blk), -len(blk), len(blk) + 1, 2 * len(blk), rng.randint(-6, 6)])
        start = max(1, lo + 1 + shift)
        body = b"".join(b" " + l + b"\n" for l in cur[lo:i]) + b"-" + cur[i] + b"\n+" + new + b"\n" + \
            b"".join(b" " + l + b"\n" for l in cur[i + 1:hi])
        text = b"--- a/f.txt\n+++ b/f.txt\n@@ -%d,%d +%d,%d @@\n" % (start, hi - lo, start, hi - lo) + body
        name = b"r%d.patch" % pi
        patches[name] = text
        series += name + b"\n"
        cur[i] = new
    return {"files": {b"f.txt": (b"".join(l + b"\n" for l in lines), 0o644)}, "dirs": [], "applied": None,
            "series": series, "patches": patches}


def add_load_error(rng, w):
    """one more patch somewhere in the series whose target cannot be loaded: its name runs through a regular file
    (ENOTDIR).  Both drivers stop with an error and write nothing."""
    w["files"][b"blocker"] = (b"a file, not a directory\n", 0o644)
    text = b"--- /dev/null\n+++ b/blocker/new.txt\n@@ -0,0 +1 @@\n+x\n" if rng.random() < 0.5 else \
        b"--- a/blocker/old.txt\n+++ b/blocker/old.txt\n@@ -1 +1 @@\n-x\n+y\n"
    w["patches"][b"unloadable.patch"] = text
    lines = [l for l in w["series"].split(b"\n") if l.strip()]
    lines.insert(rng.randint(0, len(lines)), b"unloadable.patch")
    w["series"] = b"\n".join(lines) + b"\n"
    return w


def add_links(w, prob=0.2):
    """in some workspaces one initial file is reached through a symbolic link: the file lives under store/ (a name
    no patch carries) and the tree has a link to it.  rapidquilt reads through the link and replaces the link by a
    regular file when it saves, so for the model the link is simply a file with that content and mode.  The choice
    is derived from the workspace bytes, not from the generator's random stream."""
    import random
    import zlib
    r2 = random.Random(zlib.crc32(w["series"] + b"".join(v for _, v in sorted(w["patches"].items()))))
    if r2.random() >= prob or not w["files"]:
        return
    name = r2.choice(sorted(w["files"]))
    target = b"store/" + name.replace(b"/", b"_") + b".real"
    w["files"][target] = w["files"][name]
    w["links"] = {name: target}


def default_cfg():
    return {"fuzz": 0, "backup": "O", "count": 100, "dry": False, "goal": ("A",), "threads": 1, "extra": ["-q"]}


def cfg_args(cfg):
    args = []
    g = cfg["goal"]
    if g[0] == "A":
        args.append("-a")
    if cfg["fuzz"]:
        args += ["-F", str(cfg["fuzz"])]
    args += ["--backup", {"A": "always", "O": "onfail", "N": "never"}[cfg["backup"]]]
    args += ["--backup-count", "all" if cfg["count"] < 0 else str(cfg["count"])]
    if cfg["dry"]:
        args.append("--dry-run")
    args += ["--threads", str(cfg["threads"])]
    args += cfg.get("extra", [])
    if g[0] == "C":
        args.append(str(g[1]))
    elif g[0] == "U":
        args.append(g[1].decode("latin-1"))
    return args


# ---------------------------------------------------------------------------------------------
# canonical result strings (same format as ocaml/driver.ml: show_fs)

def canon_path(p):
    comps = [c for c in p.split(b"/") if c not in (b"", b".")]
    return "/".join(c.hex() for c in comps) if comps else "-"


def canon_snapshot(snap):
    ents = []
    for p, e in snap.items():
        if e[0] == "f":
            ents.append((canon_path(p), "F %s %d %s" % (canon_path(p), e[2], hx(e[1]))))
        else:
            ents.append((canon_path(p), "D %s" % canon_path(p)))
    return " | ".join(x[1] for x in sorted(set(ents)))


def sync_links(w):
    """a link and its target are one file: same content and mode in the model's view; links whose name or target
    is gone (shrinking, trees fed back from the model) are dropped"""
    links = w.get("links") or {}
    for name, target in list(links.items()):
        if name in w["files"] and target in w["files"]:
            w["files"][name] = w["files"][target]
        else:
            del links[name]


def model_line(w, cfg):
    sync_links(w)
    files = dict(w["files"])
    files[b"series"] = (w["series"], 0o644)
    if w.get("applied") is not None:
        files[b".pc/applied-patches"] = (w["applied"], 0o644)
    dirs = set(w["dirs"])
    for p in list(files) + list(dirs):
        parts = p.split(b"/")
        for i in range(1, len(parts)):
            dirs.add(b"/".join(parts[:i]))
    for extra in w.get("pc_files", {}):
        pass
    g = cfg["goal"]
    gs = "A" if g[0] == "A" else ("C %d" % g[1] if g[0] == "C" else "U %s" % hx(g[1]))
    fl = " ".join("%s %s %d" % (hx(p), hx(d), (m if m is not None and m >= 0 else DEFAULT_MODE)) for p, (d, m) in sorted(files.items()))
    dl = " ".join(hx(d) for d in sorted(dirs))
    pl = " ".join("%s %s" % (hx(n), hx(d)) for n, d in sorted(w["patches"].items()))
    return "push %d %s %d %d %d %s %d %s %d %s %d %s" % (
        cfg["fuzz"], cfg["backup"], cfg["count"], int(cfg["dry"]) + (2 if cfg.get("threads", 1) > 1 else 0) + 4 * (cfg["fault"] + 1 if cfg.get("fault") is not None else 0), DEFAULT_MODE, gs,
        len(files), fl, len(dirs), dl, len(w["patches"]), pl)


def materialize(w, prefix="l3"):
    sync_links(w)
    files = {p: (d, (m if m is not None and m >= 0 else None)) for p, (d, m) in w["files"].items()}
    d = wsmod.make_workspace(files, w["patches"], w["series"], w.get("applied"), prefix=prefix)
    for extra in w["dirs"]:
        os.makedirs(os.path.join(d.encode(), extra), exist_ok=True)
    for name, target in (w.get("links") or {}).items():
        # name becomes a symbolic link to target (a file of the tree with the same content and mode)
        full = os.path.join(d.encode(), name)
        os.unlink(full)
        os.symlink(os.path.relpath(target, os.path.dirname(name) or b"."), full)
    return d


def run_real(binary, w, cfg, keep=False, wrapper=None, env=None, timeout=30):
    """-> (canonical result string, raw output, directory or None)"""
    d = materialize(w)
    rc, out = wsmod.run_push(binary, d, cfg_args(cfg), timeout=timeout, wrapper=wrapper, env=env)
    snap = wsmod.snapshot(d, skip=("patches",))
    s = "EXIT %s | %s" % (rc, canon_snapshot(snap))
    if not keep:
        wsmod.cleanup(d)
        d = None
    return s, out, d


def strip_err(model_out):
    """the model prints 'EXIT 1 ERR kind | ... || OPS trace'; the binary only has exit status and tree"""
    model_out = model_out.split(" || OPS ")[0]
    if model_out.startswith("EXIT 1 ERR"):
        parts = model_out.split(" | ", 1)
        return "EXIT 1 | " + (parts[1] if len(parts) > 1 else "")
    if model_out.startswith("PANIC"):
        parts = model_out.split(" | ", 1)
        return "EXIT 101 | " + (parts[1] if len(parts) > 1 else "")
    return model_out


def model_err(model_out):
    m = model_out.split(" | ")[0]
    return m.split("ERR ")[1] if "ERR " in m else None


def model_ops(model_out):
    """[(kind, path)] with kind in U (unlink), C (create fresh), T (create truncating), M (mkdir), R (rmdir)"""
    if " || OPS " not in model_out:
        return []
    t = model_out.split(" || OPS ")[1].split(" || ")[0].strip()
    return [tuple(x.split(":", 1)) for x in t.split(",") if x]


def model_inodes(model_out):
    """{path bytes: 'S' | 'N' | 'G'} - what HardLinks.irun makes of the model's log for each file of the start tree (same
    inode, fresh inode, gone) - and whether HardLinks.nrun accepts the log (truthful); (None, None) if not printed"""
    if " || INODES " not in model_out:
        return None, None
    t = model_out.split(" || INODES ")[1].split(" || ")
    res = {}
    for x in t[0].strip().split(","):
        if not x:
            continue
        path, v = x.rsplit(":", 1)
        if path == "-":
            continue
        res[b"/".join(bytes.fromhex(c) for c in path.split("/"))] = v
    return res, (len(t) > 1 and t[1].strip() == "TRUTHFUL")


def shrink_cands(w):
    """smaller workspaces: fewer patches (from the end), fewer file patches, fewer files"""
    sl = [l for l in w["series"].split(b"\n") if l.strip() and not l.startswith(b"#")]
    if len(sl) > 1:
        for i in range(len(sl)):
            d = copy.deepcopy(w)
            d["series"] = b"\n".join(sl[:i] + sl[i + 1:]) + b"\n"
            yield d
    for name, text in w["patches"].items():
        chunks = split_entries(text)
        if len(chunks) > 1:
            for i in range(len(chunks)):
                d = copy.deepcopy(w)
                d["patches"][name] = b"".join(chunks[:i] + chunks[i + 1:])
                yield d
    for p in list(w["files"]):
        d = copy.deepcopy(w)
        del d["files"][p]
        yield d
    for p, (data, m) in w["files"].items():
        ls = lines_of(data)
        if len(ls) > 1:
            d = copy.deepcopy(w)
            d["files"][p] = (b"".join(ls[:-1]), m)
            yield d


def split_entries(text):
    ls = text.split(b"\n")
    starts = [i for i, l in enumerate(ls) if l.startswith(b"diff --git ") or (l.startswith(b"--- ") and (i == 0 or not ls[i - 1].startswith(b"diff --git") ) and i + 1 < len(ls) and ls[i + 1].startswith(b"+++ "))]
    starts = sorted(set(starts))
    # a '---' line right after git metadata belongs to the git entry
    real = []
    for s in starts:
        if ls[s].startswith(b"--- "):
            j = s - 1
            while j >= 0 and (ls[j].startswith((b"index ", b"old mode", b"new mode", b"new file", b"deleted file", b"rename ", b"similarity"))):
                j -= 1
            if j >= 0 and ls[j].startswith(b"diff --git "):
                continue
        real.append(s)
    if not real:
        return [text]
    chunks = []
    bounds = real + [len(ls)]
    pre = b"\n".join(ls[:real[0]])
    for a, bnd in zip(bounds, bounds[1:]):
        c = b"\n".join(ls[a:bnd])
        chunks.append(c + (b"\n" if bnd < len(ls) else b""))
    if pre:
        chunks[0] = pre + b"\n" + chunks[0]
    return chunks
