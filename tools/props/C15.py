"""C15 - files are replaced, never edited in place; hard-linked copies stay intact.
Theorems: coq/Properties/C15.v (operation log of the model: only unlink + fresh create on files the pushed
patches name).  Tie: (a) L3 model vs binary on the resulting trees; (b) the model's operation log vs the
system calls of the binary (strace): for every tracked path the same sequence of unlink / create.
Statement check on the binary: every file of the tree is hard-linked into a twin directory (cp -al) before
the push; afterwards every twin file still has its original content and mode; files that no patch of the
series names keep inode, mtime and ctime (not opened for writing, removed or re-created).  Runs with and
without --mmap, threads 1/2/4, all backup modes, series with failures (rollback) and renames."""
import collections
import os
import re
import shutil
import stat

import rqlib
from props import common, l3common, l3gen, strace_util, ws

ID = "C15"
NEEDS_BINARY = True
TRUSTED_BASE = l3common.TRUSTED_L3 + ["strace -f: the list of write-class system calls in tools/props/strace_util.py",
                                      "hard links made with os.link; st_ino/st_mtime_ns/st_ctime_ns as reported by the sandbox's file system"]

NAMES = re.compile(r"(?:old|new)=([0-9a-f]+)")


def named_files(ctx, w):
    """every file name some patch of the series carries (after stripping), via the implementation's parser"""
    names = set()
    lines, keys = [], []
    for l in w["series"].split(b"\n"):
        t = l.split()
        if not t or l.startswith(b"#"):
            continue
        from props.C16 import parse_opts
        strip, _ = parse_opts(t[1:])
        lines.append("parse %d 0 %s" % (1 if strip is None else strip, w["patches"][t[0]].hex() or "-"))
    for out in ctx.impl(lines):
        for m in NAMES.finditer(out):
            names.add(os.path.normpath(bytes.fromhex(m.group(1))))
    return names


def one(ctx, w, cfg, use_strace):
    d = l3gen.materialize(w, prefix="c15")
    twin = d + ".twin"
    os.makedirs(twin)
    before = {}
    for dirpath, dirnames, filenames in os.walk(d.encode()):
        rel = os.path.relpath(dirpath, d.encode())
        if rel.split(b"/")[0] in (b"patches",):
            continue
        for fn in filenames:
            p = os.path.join(dirpath, fn)
            r = os.path.normpath(os.path.join(rel, fn))
            if r in (b"series",):
                continue
            t = os.path.join(twin.encode(), r)
            os.makedirs(os.path.dirname(t), exist_ok=True)
            os.link(p, t, follow_symlinks=False)      # a symbolic link is twinned as the link itself
    for dirpath, dirnames, filenames in os.walk(d.encode()):
        rel = os.path.relpath(dirpath, d.encode())
        if rel.split(b"/")[0] in (b"patches",):
            continue
        for fn in filenames:
            p = os.path.join(dirpath, fn)
            r = os.path.normpath(os.path.join(rel, fn))
            st = os.lstat(p)
            before[r] = (open(p, "rb").read(), stat.S_IMODE(st.st_mode), st.st_ino, st.st_mtime_ns, st.st_ctime_ns)
    calls = None
    if use_strace:
        rc, calls, out = strace_util.trace(ctx.binary, d, l3gen.cfg_args(cfg))
    elif cfg.get("located"):
        # started elsewhere with -d <tree>: every path the push touches is below that directory
        rc, out = ws.run_push(ctx.binary, os.path.dirname(d), ["-d", d if cfg["located"] == "abs" else os.path.basename(d)] + l3gen.cfg_args(cfg), timeout=30)
    else:
        rc, out = ws.run_push(ctx.binary, d, l3gen.cfg_args(cfg), timeout=30)
    probs = []
    named = named_files(ctx, w)
    for r, (data, mode, ino, mt, ct) in before.items():
        if r == b"series":
            continue
        t = os.path.join(twin.encode(), r)
        try:
            st = os.lstat(t)
            tdata = open(t, "rb").read()
        except OSError:
            probs.append("twin of %r vanished" % r)
            continue
        own_reject = False
        if r.endswith(b".rej") and r not in named:
            # <file>.rej is the push's own output name when a hunk of <file> is rejected: a stale one is then overwritten
            # (in place - the one output the tool does not replace by a fresh inode; DESIGN 12.4).  Only then: the push
            # failed and what is there now is a reject.  A stray <file>.rej is otherwise a file no patch names.
            try:
                now = open(os.path.join(d.encode(), r), "rb").read()
            except OSError:
                now = None
            own_reject = rc == 1 and now is not None and now != data and b"\n--- " in b"\n" + now and b"\n@@ " in now
        if (tdata != data or stat.S_IMODE(st.st_mode) != mode) and not own_reject:
            probs.append("the hard-linked copy of %r changed (%d -> %d bytes, mode %o -> %o): the file was edited in place" % (
                r, len(data), len(tdata), mode, stat.S_IMODE(st.st_mode)))
        if r not in named and not own_reject:
            p = os.path.join(d.encode(), r)
            try:
                s2 = os.lstat(p)
            except OSError:
                probs.append("%r is named by no patch but was removed" % r)
                continue
            if (s2.st_ino, s2.st_mtime_ns, s2.st_ctime_ns) != (ino, mt, ct):
                probs.append("%r is named by no patch but was re-created or written (inode %d -> %d)" % (r, ino, s2.st_ino))
    snap = "EXIT %s | %s" % (rc, l3gen.canon_snapshot(ws.snapshot(d, skip=("patches",))))
    # what became of the inode behind each name of the start tree: S same, N another one, G name gone (the twin keeps
    # every old inode alive, so a new file can not be given the number of the one it replaces)
    fate = {}
    for r, (data, mode, ino, mt, ct) in before.items():
        try:
            fate[r] = "S" if os.lstat(os.path.join(d.encode(), r)).st_ino == ino else "N"
        except OSError:
            fate[r] = "G"
    one.last_fate = fate
    shutil.rmtree(twin, ignore_errors=True)
    ws.cleanup(d)
    return snap, probs, calls, d


def ops_of_calls(calls, root):
    """[(kind, relative path)] for unlink / file create in the traced run; kind U or C"""
    res = []
    for name, path in strace_util.write_class(calls):
        path = path.split(" ")[0] if name in ("unlink", "unlinkat") else path
        p = os.path.normpath(path)
        if os.path.isabs(p):
            if not p.startswith(root + "/"):
                continue
            p = p[len(root) + 1:]
        if name in ("unlink", "unlinkat"):
            res.append(("U", p))
        elif name in ("openat", "open", "creat"):
            res.append(("C", p))
    return res


def inode_correspondence(ctx, cases, reals, fates):
    """HardLinks.v against the kernel: the model's operation log, run by the extracted HardLinks.irun on the start tree
    with one inode number per file, says for each name whether it ends on its old inode, on a fresh one or unbound;
    st_ino of the binary's run must say the same.  HardLinks.nrun must accept the log (C15_log_is_truthful, evaluated).
    Only where model tree = binary tree (anything else is the tree correspondence's business)."""
    model = ctx.model([l3gen.model_line(w, c) for w, c in cases])
    hist = ctx.coverage.setdefault("input_histogram", collections.Counter())
    n_cmp = n_names = n_bad = 0
    for (w, cfg), m, real, fate in zip(cases, model, reals, fates):
        pred, truthful = l3gen.model_inodes(m)
        if pred is None or l3gen.model_err(m) == "outofmodel":
            continue
        if truthful is False:
            ctx.violation({"kind": "proof-instance-failed", "theorem": "C15_log_is_truthful",
                           "detail": "HardLinks.nrun rejects the operation log the model wrote", "workspace": l3common.ws_json(w),
                           "cfg": l3common.cfg_json(cfg)}, no_input=True)
            continue
        if real != l3gen.strip_err(m):
            continue
        n_cmp += 1
        diffs = {}
        for name, v in pred.items():
            if name in fate:
                n_names += 1
                hist["inode fate " + v] += 1
                if fate[name] != v:
                    if cfg["threads"] > 1 and v == "S" and fate[name] == "N" and name in named_files(ctx, w):
                        # the parallel driver also saves files that only patches beyond the failing one name: workers ran
                        # ahead, were rolled back, and the unchanged file is written again - as a fresh inode, which is all
                        # the property asks of a file the pushed range names; the sequential model never loads such a file
                        hist["re-saved unchanged by the parallel driver"] += 1
                        continue
                    diffs[name.decode("latin-1")] = {"model": v, "binary": fate[name]}
        if diffs:
            n_bad += 1
            if n_bad <= 2:
                ctx.violation({"kind": "correspondence-mismatch",
                               "correspondence": "inode fate per name: HardLinks.irun on the model's operation log vs st_ino after the binary's run "
                                                 "(S same inode, N another inode, G name gone)",
                               "names": dict(list(diffs.items())[:6]), "workspace": l3common.ws_json(w), "cfg": l3common.cfg_json(cfg),
                               "args": l3gen.cfg_args(cfg)}, no_input=True)
    ctx.coverage["inode_fates_compared_runs"] = n_cmp
    ctx.coverage["inode_fates_compared_names"] = n_names


def run(ctx):
    rng = ctx.rng
    thorough = ctx.tier == "thorough"
    n = 500 if thorough else 100
    hist = ctx.coverage.setdefault("input_histogram", collections.Counter())
    cases, reals, fates = [], [], []
    bad = 0
    n_trace = 0
    for i in range(n):
        w = l3gen.gen_workspace(rng, fail_prob=0.4)
        # read-only files too: making a file writable before replacing it would be an in-place change of the inode
        for k in list(w["files"]):
            if rng.random() < 0.35:
                w["files"][k] = (w["files"][k][0], rng.choice([0o444, 0o555, 0o400]))
        # stray rejects next to tracked files (left by an earlier push, or of another series): not this push's business
        # unless it rejects a hunk of that very file (seeded C15-h: "stale" rejects were cleaned away on saving)
        for k in list(w["files"]):
            if not k.endswith(b".rej") and rng.random() < 0.3:
                w["files"][k + b".rej"] = (b"stale reject of an earlier push\n", 0o644)
                hist["stray .rej next to a tracked file"] += 1
        w["files"][b"bystander"] = (b"untouched\n", 0o644)
        w["files"][b"dir/bystander.txt"] = (b"untouched too\n", 0o600)
        cfg = l3common.rand_cfg(rng, threads=(1, 1, 2, 4))
        cfg["extra"] = ["-q"] + (["--mmap"] if rng.random() < 0.4 else [])
        hist["mmap" if "--mmap" in cfg["extra"] else "read"] += 1
        use_strace = (i % 4 == 0)
        if not use_strace and rng.random() < 0.4:
            cfg["located"] = rng.choice(["abs", "rel"])
            hist["started elsewhere with -d"] += 1
        snap, probs, calls, d = one(ctx, w, cfg, use_strace)
        if "--mmap" not in cfg["extra"]:
            cases.append((w, cfg))
            reals.append(snap)
            fates.append(one.last_fate)
        if use_strace and calls is not None and cfg["threads"] == 1:
            # the model's operation log vs the system calls, per tracked path
            m = ctx.model([l3gen.model_line(w, cfg)])[0]
            if not l3gen.model_err(m):
                n_trace += 1
                mops = collections.defaultdict(list)
                for kind, path in l3gen.model_ops(m):
                    if kind in "UCT":
                        p = b"/".join(bytes.fromhex(c) for c in path.split("/")).decode("latin-1")
                        if not p.startswith(".pc") and not p.endswith(".rej"):
                            mops[p].append("U" if kind == "U" else "C")
                        if kind == "T" and not p.startswith(".pc") and not p.endswith(".rej"):
                            probs.append("model log has an in-place create of %s" % p)
                rops = collections.defaultdict(list)
                for kind, p in ops_of_calls(calls, d):
                    if not p.startswith(".pc") and not p.endswith(".rej"):
                        rops[p].append(kind)
                if dict(mops) != dict(rops):
                    ks = [k for k in set(mops) | set(rops) if mops.get(k) != rops.get(k)]
                    ctx.violation({"kind": "correspondence-mismatch", "correspondence": "model operation log vs system calls of the binary",
                                   "workspace": l3common.ws_json(w), "cfg": l3common.cfg_json(cfg),
                                   "paths": {k: {"model": mops.get(k), "real": rops.get(k)} for k in ks[:5]}}, no_input=True)
        if probs:
            bad += 1
            if bad <= 2:
                ctx.violation({"kind": "edited-in-place", "problems": probs[:6], "workspace": l3common.ws_json(w),
                               "cfg": l3common.cfg_json(cfg), "args": l3gen.cfg_args(cfg)})
    inode_correspondence(ctx, cases, reals, fates)
    ctx.coverage["twin_runs"] = n
    ctx.coverage["syscall_traces_compared_with_model_log"] = n_trace
    l3common.compare(ctx, cases, "trees after the twin runs", real_results=reals)
    l3common.finish(ctx, "random workspaces (modify/create/delete/rename/mode, truncation to empty, failures with rollback) plus two "
                         "files no patch names; every file hard-linked into a twin before the push; --mmap in 40%; threads 1/2/4; "
                         "every 4th run under strace and compared with the model's operation log.")


def replay(ctx, payload):
    if "workspace" not in payload:
        return run(ctx)
    w = l3common.ws_from_json(payload["workspace"])
    cfg = l3common.cfg_from_json(payload["cfg"])
    snap, probs, calls, d = one(ctx, w, cfg, False)
    if probs:
        ctx.violation({"kind": "edited-in-place", "problems": probs, "workspace": payload["workspace"], "cfg": payload["cfg"]})
    l3common.finish(ctx, "replay")
