"""C02 - hunk placement: offset, anchoring, fuzz.  Theorems: coq/Properties/C02.v."""
from props import common, l1common

ID = "C02"
TRUSTED_BASE = common.BASE_TRUSTED + [
    "C02: 'admits a position' is read as level_ok (nearest admissible match that lies behind the previous hunk's frozen line), DESIGN.md section 9",
    "C02: line numbers are Z in the model; the implementation's isize arithmetic is assumed not to overflow for files shorter than 2^62 lines (checked arithmetic in the debug build would panic and be reported)",
]


def run(ctx):
    l1common.run(ctx, ID, l1common.oracle_c02,
                 "Oracle: extracted placements_ok (brute force over all positions and fuzz levels) on every report "
                 "of the implementation for Modify patches.")


def replay(ctx, payload):
    if not l1common.replay(ctx, payload, l1common.oracle_c02):
        run(ctx)
