"""C04 - undoing an application restores content, existence and permissions; never aborts.
Theorems: coq/Properties/C04.v (file-patch level, any stack undone LIFO).
Oracle on the implementation: after the LIFO rollbacks each state equals the state before the
corresponding application (content, deleted flag, permissions) and nothing panicked."""
from props import common, l1common, l1gen

ID = "C04"
NEEDS_BINARY = True
TRUSTED_BASE = common.BASE_TRUSTED + [
    "C04: rename undo (move_out/move_in) and the backup walk of the drivers are covered by the tree-level checks (C05/C08); the undo walk of a failing patch is run here through the binary (tree_undo) and compared with the L3 model",
]


def tree_undo(ctx):
    """the undo walk of the drivers (theorems C04_tree_*, C04_tree_whole_history): a patch with SEVERAL file patches for one
    file - each changing the number of lines above the next one's change - and one failing hunk is pushed; every file
    patch that applied is undone, newest first, so the tracked files are the starting ones, byte for byte, and nothing
    aborts (seeded C04-h: undoing in the order of application puts lines back at the wrong place or panics)"""
    from props import l3common, l3gen, ws
    rng = ctx.rng
    n = 60 if ctx.tier == "thorough" else 12
    cases, bad = [], 0
    for i in range(n):
        nlines = rng.randint(8, 30)
        lines = [b"line %d\n" % k for k in range(nlines)]
        cur = list(lines)
        text = b""
        nfp = rng.randint(2, 4)
        fail_at = rng.randrange(nfp + 1)          # position of the failing file patch among them (nfp = behind all)
        bad_fp = b"--- a/f.txt\n+++ b/f.txt\n@@ -1 +1 @@\n-this line is not there\n+x\n"
        other = rng.random() < 0.4
        for k in range(nfp):
            if k == fail_at:
                text += bad_fp
            new = list(cur)
            # change the number of lines near the top, and a line further down
            at = rng.randrange(0, max(1, len(new) // 3))
            if rng.random() < 0.5:
                new[at:at] = [b"added %d.%d\n" % (k, j) for j in range(rng.randint(1, 3))]
            else:
                del new[at:at + rng.randint(1, 2)]
            low = rng.randrange(len(new) // 2, len(new))
            if rng.random() < 0.5:
                new[low] = b"changed %d\n" % k
            else:
                del new[low]
            text += l3gen.file_patch_text(rng, b"a/f.txt", b"b/f.txt", cur, new, rng.choice([0, 1, 3]), "plain")
            cur = new
            if other and k == 0:
                text += b"--- a/g.txt\n+++ b/g.txt\n@@ -1 +1 @@\n-keep\n+kept\n"
        if fail_at == nfp:
            text += bad_fp
        w = {"files": {b"f.txt": (b"".join(lines), 0o644), b"g.txt": (b"keep\n", 0o600)}, "dirs": [], "applied": None,
             "series": b"p.patch\n", "patches": {b"p.patch": text}}
        cfg = l3common.rand_cfg(rng, threads=(1, 2))
        cfg["goal"] = ("A",)
        cases.append((w, cfg))
        real, _, _ = l3gen.run_real(ctx.binary, w, cfg)
        probs = []
        if l3common.exit_of(real) != "1":
            probs.append("exit status %s of a push whose only patch has a failing hunk" % l3common.exit_of(real))
        want = sorted("F %s %d %s" % (l3gen.canon_path(k), m, l3gen.hx(d)) for k, (d, m) in w["files"].items())
        got = sorted(x for x in l3common.tracked(real) if x.split()[1] != l3gen.canon_path(b"series"))
        if got != want:
            probs.append("tracked files after the failed push are not the starting ones: %s" % [x[:90] for x in got if x not in want][:2])
        if probs:
            bad += 1
            if bad <= 2:
                ctx.violation({"kind": "undo-does-not-restore", "level": "tree", "problems": probs, "workspace": l3common.ws_json(w),
                               "cfg": l3common.cfg_json(cfg)})
    l3common.compare(ctx, cases, "several file patches for one file in a failing patch")
    ctx.coverage["tree_undo_pushes"] = len(cases)
    ws.cleanup_all()


def undo_ok(c, out):
    """Python-side statement check (an equality, no oracle needed): returns problem text or None"""
    po = l1gen.parse_output(out)
    if po is None:
        return "abort: " + out[:80]
    states = [{"deleted": c["mf"]["deleted"], "perm": c["mf"]["perm"], "content": c["mf"]["content"]}]
    for st, rep in po["applies"]:
        states.append(st)
    n = len(c["patches"])
    if len(po["rollbacks"]) != n:
        return "missing rollback states"
    for k, st in enumerate(po["rollbacks"]):
        want = states[n - 1 - k]
        if st != want:
            return "after undoing patch %d: %r, before it was applied: %r" % (n - 1 - k, st, want)
    return None


def run(ctx):
    # the correspondence with the model (for which rollback . apply = id is proved) is the main tie;
    # the direct statement check runs on every implementation output as well
    orig = common.differential

    def differential(ctx_, cases, encode, oracle_line=None, classify=None, shrink_cands=None, label="cases",
                     trivial=None, describe=None):
        res = orig(ctx_, cases, encode, None, classify, shrink_cands, label, trivial, describe)
        outs = ctx_.impl([encode(c) for c in cases])
        bad = 0
        for c, o in zip(cases, outs):
            why = undo_ok(c, o)
            if why:
                bad += 1
                if bad <= 2:
                    import rqlib
                    small = rqlib.shrink(c, lambda x: undo_ok(x, ctx_.impl([encode(x)])[0]) is not None, shrink_cands)
                    l = encode(small)
                    ctx_.violation({"kind": "undo-does-not-restore", "generator": label, "case": small, "case_line": l,
                                    "implementation": ctx_.impl([l])[0], "model": ctx_.model([l])[0], "why": why})
        ctx_.coverage["statement_checks"] = ctx_.coverage.get("statement_checks", 0) + len(cases)
        return res

    tree_undo(ctx)
    common.differential = differential
    try:
        extra = {"stacks-more": [l1gen.gen_stack(ctx.rng) for _ in range(4000 if ctx.tier == "thorough" else 1000)]}
        l1common.run(ctx, ID, None, "Statement check: every state after an undo equals the state before the "
                                    "corresponding application; a PANIC of the implementation is a violation.", extra)
    finally:
        common.differential = orig


def replay(ctx, payload):
    c = payload.get("case")
    if payload.get("level") == "tree" and "workspace" in payload:
        from props import l3common, l3gen
        w, cfg = l3common.ws_from_json(payload["workspace"]), l3common.cfg_from_json(payload["cfg"])
        real, _, _ = l3gen.run_real(ctx.binary, w, cfg)
        want = sorted("F %s %d %s" % (l3gen.canon_path(k), m, l3gen.hx(d)) for k, (d, m) in w["files"].items())
        got = sorted(x for x in l3common.tracked(real) if x.split()[1] != l3gen.canon_path(b"series"))
        ctx.coverage.update({"evaluations": 1, "distinct_nontrivial": 1, "rule": "replay of one recorded push"})
        if got != want or l3common.exit_of(real) != "1":
            ctx.violation({"kind": "undo-does-not-restore", "level": "tree", "workspace": payload["workspace"], "cfg": payload["cfg"],
                           "problems": ["exit %s; tracked files differ from the starting ones: %s" % (l3common.exit_of(real), got != want)]})
        return
    if not c:
        return run(ctx)
    l = l1gen.encode(c)
    out = ctx.impl([l])[0]
    mo = ctx.model([l])[0]
    why = undo_ok(c, out)
    ctx.coverage["evaluations"] = 1
    ctx.coverage["distinct_nontrivial"] = 1
    ctx.coverage["rule"] = "replay of one recorded case"
    ctx.coverage["samples"] = [{"case": l, "implementation": out}]
    if why:
        ctx.violation({"kind": "undo-does-not-restore", "case": c, "case_line": l, "implementation": out, "model": mo, "why": why})
    elif out != mo:
        ctx.violation({"kind": "correspondence-mismatch", "case": c, "case_line": l, "implementation": out, "model": mo}, no_input=True)
