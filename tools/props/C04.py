"""C04 - undoing an application restores content, existence and permissions; never aborts.
Theorems: coq/Properties/C04.v (file-patch level, any stack undone LIFO).
Oracle on the implementation: after the LIFO rollbacks each state equals the state before the
corresponding application (content, deleted flag, permissions) and nothing panicked."""
from props import common, l1common, l1gen

ID = "C04"
TRUSTED_BASE = common.BASE_TRUSTED + [
    "C04: rename undo (move_out/move_in) and the reject/backup walks of the drivers are covered by the tree-level checks (C05/C08), not by this file-level theorem",
]


def undo_ok(c, out):
    """Python-side statement check (an equality, no oracle needed): returns problem text or None"""
    po = l1gen.parse_output(out)
    if po is None:
        return "abort: " + out[:80]
    states = [{"deleted": c["mf"]["deleted"], "perm": c["mf"]["perm"], "content": c["mf"]["content"]}]
    for st, rep in po["applies"]:
        states.append(st)
    n = len(c["patches"])
    if len(po["rollbacks"]) != n:
        return "missing rollback states"
    for k, st in enumerate(po["rollbacks"]):
        want = states[n - 1 - k]
        if st != want:
            return "after undoing patch %d: %r, before it was applied: %r" % (n - 1 - k, st, want)
    return None


def run(ctx):
    # the correspondence with the model (for which rollback . apply = id is proved) is the main tie;
    # the direct statement check runs on every implementation output as well
    orig = common.differential

    def differential(ctx_, cases, encode, oracle_line=None, classify=None, shrink_cands=None, label="cases",
                     trivial=None, describe=None):
        res = orig(ctx_, cases, encode, None, classify, shrink_cands, label, trivial, describe)
        outs = ctx_.impl([encode(c) for c in cases])
        bad = 0
        for c, o in zip(cases, outs):
            why = undo_ok(c, o)
            if why:
                bad += 1
                if bad <= 2:
                    import rqlib
                    small = rqlib.shrink(c, lambda x: undo_ok(x, ctx_.impl([encode(x)])[0]) is not None, shrink_cands)
                    l = encode(small)
                    ctx_.violation({"kind": "undo-does-not-restore", "generator": label, "case": small, "case_line": l,
                                    "implementation": ctx_.impl([l])[0], "model": ctx_.model([l])[0], "why": why})
        ctx_.coverage["statement_checks"] = ctx_.coverage.get("statement_checks", 0) + len(cases)
        return res

    common.differential = differential
    try:
        extra = {"stacks-more": [l1gen.gen_stack(ctx.rng) for _ in range(4000 if ctx.tier == "thorough" else 1000)]}
        l1common.run(ctx, ID, None, "Statement check: every state after an undo equals the state before the "
                                    "corresponding application; a PANIC of the implementation is a violation.", extra)
    finally:
        common.differential = orig


def replay(ctx, payload):
    c = payload.get("case")
    if not c:
        return run(ctx)
    l = l1gen.encode(c)
    out = ctx.impl([l])[0]
    mo = ctx.model([l])[0]
    why = undo_ok(c, out)
    ctx.coverage["evaluations"] = 1
    ctx.coverage["distinct_nontrivial"] = 1
    ctx.coverage["rule"] = "replay of one recorded case"
    ctx.coverage["samples"] = [{"case": l, "implementation": out}]
    if why:
        ctx.violation({"kind": "undo-does-not-restore", "case": c, "case_line": l, "implementation": out, "model": mo, "why": why})
    elif out != mo:
        ctx.violation({"kind": "correspondence-mismatch", "case": c, "case_line": l, "implementation": out, "model": mo}, no_input=True)
