"""C14 - --mmap, verbosity, colour, statistics and analyses never change the result.
Theorems: coq/Properties/C14.v (the model has no input for them; every CLI option / ApplyConfig field
regenerated from the source is classified).  Runs: each generated workspace - including zero-length tree
files, zero-length patch files, patches with only a header, failing series - is pushed once with -q
(baseline, also compared with the model) and with random combinations of the presentation options
(none/-q/-v/-vv/-vvv, --color always|auto|never, --stats, --mmap, -A multiapply, RAPIDQUILT_THREADS left
alone); tree, .pc, reject files and exit status must be identical for every combination."""
import collections
import copy

from props import common, l3common, l3gen, ws

ID = "C14"
NEEDS_BINARY = True
TRUSTED_BASE = l3common.TRUSTED_L3 + ["the printing, diagnostics (apply/diagnostics.rs), analyses and the mmap arena are NOT modelled: their absence of side effects is decided by the runs only"]

VERB = [[], ["-q"], ["-v"], ["-vv"], ["-v", "-v", "-v"], ["--quiet"], ["--verbose"]]
COLOR = [[], ["--color", "always"], ["--color", "never"], ["--color", "auto"], ["--color=always"]]


def rand_presentation(rng):
    extra = list(rng.choice(VERB)) + list(rng.choice(COLOR))
    if rng.random() < 0.4:
        extra.append("--stats")
    if rng.random() < 0.5:
        extra.append("--mmap")
    if rng.random() < 0.4:
        extra += rng.choice([["-A", "multiapply"], ["--analyze", "multiapply"], ["-A", "MultiApply"]])
    rng.shuffle(extra) if all(not x.startswith("always") and x not in ("always", "never", "auto", "multiapply", "MultiApply") for x in extra) else None
    return extra


def special(rng, w):
    """zero-length files and patches, header-only patches"""
    w = copy.deepcopy(w)
    r = rng.random()
    if r < 0.3:
        w["files"][b"empty.txt"] = (b"", 0o644)
        name = b"z%d.patch" % rng.randrange(100)
        w["patches"][name] = b"--- a/empty.txt\n+++ b/empty.txt\n@@ -0,0 +1,2 @@\n+now\n+filled\n"
        w["series"] += name + b"\n"
    elif r < 0.5:
        name = b"zero%d.patch" % rng.randrange(100)
        w["patches"][name] = b""
        w["series"] = name + b"\n" + w["series"]
    elif r < 0.65:
        name = b"hdr%d.patch" % rng.randrange(100)
        w["patches"][name] = b"Just a description\nwithout any file patch\n"
        w["series"] += name + b"\n"
    elif r < 0.8:
        # truncate a file to nothing, then fill it again
        w["files"][b"t.txt"] = (b"one\ntwo\n", 0o644)
        w["patches"][b"t1.patch"] = b"--- a/t.txt\n+++ b/t.txt\n@@ -1,2 +0,0 @@\n-one\n-two\n"
        w["patches"][b"t2.patch"] = b"--- a/t.txt\n+++ b/t.txt\n@@ -0,0 +1 @@\n+again\n"
        w["series"] += b"t1.patch\nt2.patch\n"
    return w


def diagnostics_corpus():
    """failing hunks whose best partial match sits at the edges of the file - what the failure diagnostics (only run
    without -q) have to cope with"""
    F = lambda d: (d, 0o644)
    out = []
    mk = lambda files, patch: {"files": files, "dirs": [], "applied": None, "series": b"p.patch\n", "patches": {b"p.patch": patch}}
    body = b"".join(b"l%d\n" % i for i in range(1, 9))
    def hunk(start, old, new):
        return b"--- a/f\n+++ b/f\n@@ -%d,%d +%d,%d @@\n" % (start, len(old), start, len(new)) + b"".join(
            (b"-" if k == "-" else b"+" if k == "+" else b" ") + t + b"\n" for k, t in zip_kinds(old, new))
    def zip_kinds(old, new):
        res = [(" ", old[0])] if old and new and old[0] == new[0] else []
        rest_old = old[1:] if res else old
        rest_new = new[1:] if res else new
        return res + [("-", t) for t in rest_old] + [("+", t) for t in rest_new]
    # the file lost its first lines: the hunk's 2nd/3rd line is file line 1
    out.append(mk({b"f": F(b"l2\nl3\nl4\n")}, hunk(1, [b"l1", b"l2", b"l3", b"X"], [b"l1", b"l2", b"l3", b"Y"])))
    out.append(mk({b"f": F(b"l3\nl4\n")}, hunk(1, [b"l1", b"l2", b"l3", b"X"], [b"l1", b"Y"])))
    # hunk longer than the file; one-line file; empty file
    out.append(mk({b"f": F(b"l1\n")}, hunk(1, [b"l1", b"l2", b"l3", b"l4", b"l5"], [b"l1", b"Z"])))
    out.append(mk({b"f": F(b"")}, hunk(1, [b"a", b"b"], [b"a", b"c"])))
    # match hanging over the end of the file; far-away stated line
    out.append(mk({b"f": F(body)}, hunk(7, [b"l7", b"l8", b"l9", b"l10"], [b"l7", b"Q"])))
    out.append(mk({b"f": F(body)}, hunk(4000, [b"l7", b"nope"], [b"l7", b"Q"])))
    # a huge stated line on a one-line file, one hunk line matching (the distance term of the hint search)
    out.append(mk({b"f": F(b"bbb\n")}, b"--- a/f\n+++ b/f\n@@ -99999999999999999,3 +99999999999999999,3 @@\n aaa\n-bbb\n+BBB\n ccc\n"))
    out.append(mk({b"f": F(b"l1\nl2\n")}, b"--- a/f\n+++ b/f\n@@ -9223372036854775807,2 +9223372036854775807,2 @@\n l1\n-nope\n+x\n"))
    # two failing entries for one file, and a failing entry after one that applied to the same file
    two = hunk(1, [b"l1", b"X"], [b"l1", b"Y"]) + hunk(5, [b"l5", b"X"], [b"l5", b"Y"])
    out.append(mk({b"f": F(body)}, two))
    out.append(mk({b"f": F(body)}, hunk(1, [b"l1", b"l2"], [b"l1", b"L2"]) + hunk(1, [b"l1", b"l2"], [b"l1", b"again"])))
    # only zero-length files are loaded (statistics over nothing)
    out.append({"files": {b"e1": F(b""), b"e2": F(b"")}, "dirs": [], "applied": None, "series": b"p.patch\nq.patch\n",
                "patches": {b"p.patch": b"--- a/e1\n+++ b/e1\n@@ -0,0 +1 @@\n+x\n", b"q.patch": b"diff --git a/e2 b/e2\nold mode 100644\nnew mode 100755\n"}})
    out.append({"files": {b"e1": F(b"")}, "dirs": [], "applied": None, "series": b"q.patch\n",
                "patches": {b"q.patch": b"diff --git a/e1 b/e1\nold mode 100644\nnew mode 100755\n"}})
    # nothing to do: an empty range (push 0), an empty series, everything applied already
    e1 = mk({b"f": F(body)}, b"--- a/f\n+++ b/f\n@@ -1 +1 @@\n-l1\n+L1\n")
    e1["_goal"] = ("C", 0)
    out.append(e1)
    out.append({"files": {b"f": F(body)}, "dirs": [], "applied": None, "series": b"# nothing yet\n", "patches": {}})
    e3 = mk({b"f": F(body.replace(b"l1\n", b"L1\n"))}, b"--- a/f\n+++ b/f\n@@ -1 +1 @@\n-l1\n+L1\n")
    e3["applied"] = b"p.patch\n"
    out.append(e3)
    # placeholder patches: zero-length patch files, nothing at all is loaded
    out.append({"files": {b"src/a.txt": F(b"one\ntwo\n")}, "dirs": [], "applied": None, "series": b"todo1.patch\ntodo2.patch\n",
                "patches": {b"todo1.patch": b"", b"todo2.patch": b""}})
    # missing file, reversed entry that fails, rename onto an existing file
    out.append(mk({b"g": F(body)}, hunk(1, [b"l1", b"l2"], [b"l1", b"L2"])))
    w = mk({b"f": F(body)}, hunk(1, [b"l1", b"nope"], [b"l1", b"L2"]))
    w["series"] = b"p.patch -R\n"
    out.append(w)
    out.append(mk({b"f": F(body), b"g": F(b"x\n")}, b"diff --git a/f b/g\nsimilarity index 100%\nrename from f\nrename to g\n"))
    return out


def run_located(ctx, w, cfg, rng):
    """the location options: the same push started from another directory with -d <tree> (absolute or relative), and
    with the patches in a differently named directory given by -p"""
    import os
    d = l3gen.materialize(w)
    args = list(l3gen.cfg_args(cfg))
    variant = rng.choice(["-d abs", "-d rel", "-p other", "-d + -p"])
    cwd = d
    if variant in ("-d abs", "-d + -p"):
        cwd = os.path.dirname(d)
        args = ["-d", d] + args
    elif variant == "-d rel":
        cwd = os.path.dirname(d)
        args = ["--directory", os.path.basename(d)] + args
    if variant in ("-p other", "-d + -p"):
        os.rename(os.path.join(d, "patches"), os.path.join(d, "qpatches"))
        args = ["-p", "qpatches"] + args
    rc, out = ws.run_push(ctx.binary, cwd, args, timeout=30)
    snap = ws.snapshot(d, skip=("patches", "qpatches"))
    ws.cleanup(d)
    return variant, "EXIT %s | %s" % (rc, l3gen.canon_snapshot(snap)), out


def run(ctx):
    rng = ctx.rng
    thorough = ctx.tier == "thorough"
    n = 400 if thorough else 70
    per = 6 if thorough else 4
    hist = ctx.coverage.setdefault("input_histogram", collections.Counter())
    cases, reals = [], []
    bad = 0
    todo = diagnostics_corpus() + [None] * n
    for item in todo:
        w = item if item is not None else special(rng, l3gen.gen_workspace(rng, fail_prob=0.45))
        cfg = l3common.rand_cfg(rng, threads=(1, 1, 2, 4))
        if item is not None:
            cfg["fuzz"] = 0          # the corpus is about hunks that fail: no fuzz to let them through
            if "_goal" in w:
                cfg["goal"] = w["_goal"]
        cfg["extra"] = ["-q"]
        base, out0, _ = l3gen.run_real(ctx.binary, w, cfg)
        cases.append((w, cfg))
        reals.append(base)
        combos = [rand_presentation(rng) for _ in range(per)]
        if item is not None:
            combos = [[], ["-v"], ["-vv"], ["--mmap"], ["-v", "--color", "always"], ["--mmap", "--stats"], ["--stats"],
                      ["--stats", "-A", "multiapply"]]      # every verbosity and the statistics on the corpus
        for extra in combos:
            c2 = dict(cfg)
            c2["extra"] = extra
            for x in c2["extra"]:
                hist["opt " + x] += 1
            r2, out, _ = l3gen.run_real(ctx.binary, w, c2)
            ctx.coverage["option_runs"] = ctx.coverage.get("option_runs", 0) + 1
            if r2 != base:
                bad += 1
                if bad <= 2:
                    a, b = base.split(" | "), r2.split(" | ")
                    ctx.violation({"kind": "presentation-option-changes-result", "options": c2["extra"], "workspace": l3common.ws_json(w),
                                   "cfg": l3common.cfg_json(cfg), "args": l3gen.cfg_args(c2),
                                   "only_with_q": [x[:200] for x in a if x not in b][:5], "only_with_options": [x[:200] for x in b if x not in a][:5],
                                   "output_tail": out[-600:].decode("latin-1")})
    # many files under a low limit of open files: --mmap must not need more descriptors than reading does
    many = {"files": {b"m/f%03d" % i: (b"line %d\n" % i, 0o644) for i in range(90)}, "dirs": [], "applied": None,
            "series": b"".join(b"m%03d.patch\n" % i for i in range(90)),
            "patches": {b"m%03d.patch" % i: b"--- a/m/f%03d\n+++ b/m/f%03d\n@@ -1 +1 @@\n-line %d\n+LINE %d\n" % (i, i, i, i) for i in range(90)}}
    limit = ["bash", "-c", 'ulimit -n 64; exec "$@"', "--"]
    for th in (1, 2):
        cfg = l3gen.default_cfg()
        cfg["threads"] = th
        cfg["extra"] = ["-q"]
        base, _, _ = l3gen.run_real(ctx.binary, many, cfg, wrapper=limit)
        c2 = dict(cfg)
        c2["extra"] = ["-q", "--mmap"]
        r2, out, _ = l3gen.run_real(ctx.binary, many, c2, wrapper=limit)
        hist["90 files under ulimit -n 64"] += 1
        ctx.coverage["option_runs"] = ctx.coverage.get("option_runs", 0) + 1
        if r2 != base or l3common.exit_of(base) != "0":
            ctx.violation({"kind": "presentation-option-changes-result", "options": ["--mmap"], "note": "90 files, 90 patches, ulimit -n 64, threads=%d" % th,
                           "exit_plain": l3common.exit_of(base), "exit_mmap": l3common.exit_of(r2), "output_tail": out[-400:].decode("latin-1")})
    # location options (-d / -p): the model works on the tree itself, the binary must not care where it is started
    nb = 0
    for (w, cfg), base in list(zip(cases, reals))[: (200 if thorough else 40)]:
        variant, r2, out = run_located(ctx, w, cfg, rng)
        hist["location " + variant] += 1
        if r2 != base:
            nb += 1
            if nb <= 2:
                a, b = base.split(" | "), r2.split(" | ")
                ctx.violation({"kind": "location-option-changes-result", "variant": variant, "workspace": l3common.ws_json(w), "cfg": l3common.cfg_json(cfg),
                               "only_plain": [x[:200] for x in a if x not in b][:5], "only_located": [x[:200] for x in b if x not in a][:5],
                               "output_tail": out[-400:].decode("latin-1")})
    l3common.compare(ctx, cases, "baseline (-q) vs model", real_results=reals)
    l3common.finish(ctx, "random workspaces (45%% failing) plus zero-length tree files, zero-length and header-only patch files, truncate-"
                         "then-fill; each pushed with -q and with %d random combinations of verbosity / --color / --stats / --mmap / -A multiapply; "
                         "threads 1/2/4, all backup modes." % per)


def replay(ctx, payload):
    if "workspace" not in payload:
        return run(ctx)
    w = l3common.ws_from_json(payload["workspace"])
    cfg = l3common.cfg_from_json(payload["cfg"])
    cfg["extra"] = ["-q"]
    base, _, _ = l3gen.run_real(ctx.binary, w, cfg)
    c2 = dict(cfg)
    c2["extra"] = payload.get("options", [])
    r2, out, _ = l3gen.run_real(ctx.binary, w, c2)
    if r2 != base:
        ctx.violation({"kind": "presentation-option-changes-result", "options": c2["extra"], "workspace": payload["workspace"], "cfg": payload["cfg"]})
    l3common.finish(ctx, "replay")
