"""C01 - a unified diff from A to B, pushed onto A, yields exactly B (and -R yields A).
Theorems: coq/Properties/C01.v (hunks that sit exactly where they say are applied at offset 0, fuzz 0 and
change exactly their regions; split/concat identity; create/delete).  For generated pairs (A, B) - lines over a
small alphabet with repeats, empty and absent files, missing final newline, arbitrary bytes incl. NUL and CR -
the patch is produced by REAL `diff -a -U c` and `git diff --no-index -U c` (c = 0..4) in every header dialect
(labels, timestamps, git extended headers, /dev/null, .orig-style names, quoted names, -p0/-p1/-p2) and then:
  (1) the extracted checker c01_check must accept it: it parses to one file patch whose hunks satisfy
      DiffSpec.exact_diff on A and whose region replacement is B  [hypotheses of the theorem, evaluated];
  (2) libpatch (harness `applyb`) and the model apply it to A: same result, = B, every hunk offset 0 fuzz 0;
  (3) the binary pushes it onto a tree holding A: exit 0, file = B byte for byte, no reject; with `-R` in the
      series onto B: file = A; same with the L3 model.
Known finding ctxfree-top is classified exactly (single hunk, empty side at line 0, other file not empty)."""
import collections
import os
import shutil
import subprocess

import rqlib
from props import common, l3common, l3gen, ws

ID = "C01"
NEEDS_BINARY = True
TRUSTED_BASE = l3common.TRUSTED_L3 + [
    "GNU diff 3.8 and git 2.39 are used as generators of inputs; no model of them: their output is checked against the hypotheses of the theorem by the extracted checker (DiffCheck.c01_check)"]

ALPHA = [b"a", b"b", b"c", b"{", b"}", b"", b"x y", b"end"]
# lines that, behind the '-', '+' or ' ' of a hunk line, look like patch syntax: a removed "-- comment" reads "--- comment",
# an added "++ x" reads "+++ x", a context "@@ -1 +1 @@" is indented by one space, ... (seeded C01-h)
LOOKALIKE = [b"-- sql comment", b"-- ", b"--", b"-- a/f", b"++ b/f", b"++ plus", b"- minus", b"+ plus", b"@@ -1 +1 @@", b"@ -1,2 +1,2 @@",
             b"diff --git a/x b/x", b"iff --git a/x b/x", b"Index: x", b"ndex: x", b"\\ No newline at end of file", b" leading space", b"=====",
             b"*** 1,2 ****", b"rename from x", b"new file mode 100644", b"GIT binary patch", b"Binary files a and b differ", b"-", b"+"]


def rand_file(rng):
    r = rng.random()
    if r < 0.08:
        return None
    if r < 0.14:
        return b""
    n = rng.randint(1, 14)
    if rng.random() < 0.15:
        # arbitrary bytes
        lines = [bytes(rng.randrange(256) for _ in range(rng.randint(0, 6))).replace(b"\n", b"~") for _ in range(n)]
    elif rng.random() < 0.1:
        lines = [rng.choice(ALPHA) + b"\r" for _ in range(n)]
    elif rng.random() < 0.15:
        lines = [rng.choice(ALPHA + LOOKALIKE + LOOKALIKE) for _ in range(n)]
    else:
        lines = [rng.choice(ALPHA) for _ in range(n)]
    data = b"\n".join(lines) + b"\n"
    if rng.random() < 0.2:
        data = data[:-1]
    return data


def mutate(rng, a):
    if a is None or a == b"":
        return rand_file(rng)
    if rng.random() < 0.06:
        return None
    if rng.random() < 0.04:
        return b""
    nl = a.endswith(b"\n")
    lines = a.split(b"\n")
    if nl:
        lines = lines[:-1]
    pool = ALPHA + LOOKALIKE if (any(l in LOOKALIKE for l in lines) or rng.random() < 0.05) else ALPHA
    for _ in range(rng.randint(1, 4)):
        op = rng.choice("idr")
        i = rng.randrange(len(lines) + 1)
        if op == "i":
            lines[i:i] = [rng.choice(pool) for _ in range(rng.randint(1, 3))]
        elif op == "d" and lines:
            del lines[min(i, len(lines) - 1)]
        elif lines:
            lines[min(i, len(lines) - 1)] = rng.choice(pool) + (b"!" if pool is ALPHA or rng.random() < 0.5 else b"")
    out = b"\n".join(lines)
    if lines and (nl if rng.random() < 0.8 else not nl):
        out += b"\n"
    return out


DIALECTS = ["labels", "timestamps", "epoch", "git", "orig", "quoted", "p0", "p2"]


def make_patch(rng, a, b, c, dialect, top):
    """-> (patch bytes, strip, file name in the tree) or None when the tool reports no difference"""
    if os.path.exists(top):
        shutil.rmtree(top)
    name = b"dir/f.txt"
    if dialect == "quoted":
        name = rng.choice([b"dir/f \xc3\xa9.txt", b'dir/q"uote.txt', b"dir/tab\there.txt"])
    os.makedirs(os.path.join(top.encode(), b"a", os.path.dirname(name)))
    os.makedirs(os.path.join(top.encode(), b"b", os.path.dirname(name)))
    pa, pb = os.path.join(top.encode(), b"a", name), os.path.join(top.encode(), b"b", name)
    if a is not None:
        open(pa, "wb").write(a)
    if b is not None:
        open(pb, "wb").write(b)
    strip = 1
    env = dict(os.environ, LC_ALL="C", TZ="UTC", GIT_CONFIG_NOSYSTEM="1", HOME=top)
    if dialect in ("git", "quoted"):
        cmd = [b"git", b"diff", b"--no-index", b"--no-color", b"--no-ext-diff", b"-U%d" % c, b"--",
               (b"a/" + name) if a is not None else b"/dev/null", (b"b/" + name) if b is not None else b"/dev/null"]
        p = subprocess.run(cmd, cwd=top, env=env, stdout=subprocess.PIPE, stderr=subprocess.PIPE)
        text = p.stdout
        # git prints a/a/dir/f.txt b/b/dir/f.txt: two components to strip
        strip = 2
        if b"Binary files" in text or b"GIT binary" in text:
            cmd.insert(4, b"--text")
            text = subprocess.run(cmd, cwd=top, env=env, stdout=subprocess.PIPE, stderr=subprocess.PIPE).stdout
    else:
        la, lb = b"a/" + name, b"b/" + name
        if dialect == "orig" and b is not None:
            # (when B is absent the old name is the only name of the file: f.orig would name a file that is not there)
            la = b"a/" + name + b".orig"
        if dialect == "p0":
            la, lb, strip = name, name, 0
        if dialect == "p2":
            la, lb, strip = b"x/y/" + name, b"x/y/" + name, 2
        cmd = [b"diff", b"-a", b"-U%d" % c]
        if dialect == "epoch":
            # files whose time stamp is the epoch: `1970-01-01 00:00:00.000000000 +0000` behind the names
            for f in (pa, pb):
                if os.path.exists(f):
                    os.utime(f, (0, 0))
        if dialect not in ("timestamps", "epoch"):
            cmd += [b"--label", la if a is not None else b"/dev/null", b"--label", lb if b is not None else b"/dev/null"]
        cmd += [b"a/" + name if a is not None else b"/dev/null", b"b/" + name if b is not None else b"/dev/null"]
        p = subprocess.run(cmd, cwd=top, env=env, stdout=subprocess.PIPE, stderr=subprocess.PIPE)
        text = p.stdout
    if not text:
        return None
    return text, strip, name


def hx(x):
    return "-" if x is None else ("=" if x == b"" else x.hex())


def is_ctxfree_top(a, b, patch):
    """the known class: one hunk whose old side is empty at line 0 on a non-empty A (insertion at the top without
    context), or whose new side is empty (+0,0) while B is not empty (deletion of the head without context)"""
    hs = [l for l in patch.split(b"\n") if l.startswith(b"@@ ")]
    if len(hs) != 1:
        return False
    h = hs[0]
    if h.startswith(b"@@ -0,0 ") and a not in (None, b""):
        return True
    if b" +0,0 @@" in h and b not in (None, b""):
        return True
    return False


HK2 = None


def gen_vs_diff(ctx, rng, count, hist):
    """the specification-level generator DiffGen.hunks_of (for which 'apply gives B' is PROVED for every script and
    context width) against what GNU diff prints: scripts in normal form over pairwise different lines, so that the
    alignment is unique; the hunks must be identical (lines, start lines, context counts)"""
    import re
    top = ws.fresh_dir("c01gen2")
    uid = [0]

    def fresh(tag, n):
        out = []
        for _ in range(n):
            uid[0] += 1
            out.append(b"%s%d\n" % (tag, uid[0]))
        return out

    lines, metas = [], []
    for _ in range(count):
        c = rng.choice([0, 1, 2, 3])
        k0 = fresh(b"k", rng.randint(0, 6))
        nsteps = rng.randint(1, 4)
        steps = []
        for i in range(nsteps):
            r = fresh(b"r", rng.randint(0, 3))
            a = fresh(b"a", rng.randint(0 if r else 1, 3))
            keep = fresh(b"k", rng.randint(2 * c + 1, 2 * c + 4) if i < nsteps - 1 else rng.randint(0, 5))
            steps.append((r, a, keep))
        A = b"".join(k0) + b"".join(b"".join(r) + b"".join(k) for r, a, k in steps)
        B = b"".join(k0) + b"".join(b"".join(a) + b"".join(k) for r, a, k in steps)
        if rng.random() < 0.2 and A.endswith(b"\n") and B.endswith(b"\n") and steps[-1][2]:
            # the last kept line lacks its newline in both files
            steps[-1] = (steps[-1][0], steps[-1][1], steps[-1][2][:-1] + [steps[-1][2][-1][:-1]])
            A, B = A[:-1], B[:-1]
        hx2 = lambda ls: (b"".join(ls).hex() or "-")
        lines.append("gen %d %s %d %s" % (c, hx2(k0), len(steps), " ".join("%s %s %s" % (hx2(r), hx2(a), hx2(k)) for r, a, k in steps)))
        metas.append((c, A, B))
    model = ctx.model(lines)
    plines = []
    for c, A, B in metas:
        open(os.path.join(top, "A"), "wb").write(A)
        open(os.path.join(top, "B"), "wb").write(B)
        p = subprocess.run(["diff", "-a", "-U%d" % c, "--label", "a/f", "--label", "b/f", "A", "B"], cwd=top, stdout=subprocess.PIPE,
                           env=dict(os.environ, LC_ALL="C"))
        plines.append("parse 1 0 %s" % (p.stdout.hex() or "-"))
    shutil.rmtree(top, ignore_errors=True)
    impl = ctx.impl(plines)
    bad = 0
    for (c, A, B), m, io in zip(metas, model, impl):
        real = re.findall(r"<(\d+) (\d+) (\d+) (\d+) fn=\S* R\[([^\]]*)\] A\[([^\]]*)\]>", io)
        spec = re.findall(r"<(\d+) (\d+) (\d+) (\d+) R\[([^\]]*)\] A\[([^\]]*)\]>", m)
        hist["generator vs diff: context=%d" % c] += 1
        if real != spec:
            bad += 1
            if bad <= 2:
                ctx.violation({"kind": "correspondence-mismatch", "correspondence": "DiffGen.hunks_of vs GNU diff -U%d on a script with unique lines" % c,
                               "A": A.decode("latin-1"), "B": B.decode("latin-1"), "diff_hunks": real[:4], "generator_hunks": spec[:4]}, no_input=True)
    ctx.coverage["generator_scripts_compared_with_diff"] = len(metas)


def run(ctx):
    rng = ctx.rng
    thorough = ctx.tier == "thorough"
    n = 1500 if thorough else 260
    hist = ctx.coverage.setdefault("input_histogram", collections.Counter())
    top = ws.fresh_dir("c01gen")
    items = []
    for _ in range(n):
        a = rand_file(rng)
        b = mutate(rng, a)
        if a == b or (a is None and b is None):
            continue
        if (a is None and b == b"") or (a == b"" and b is None):
            continue      # no unified diff expresses this
        c = rng.choice([0, 1, 2, 3, 3, 4])
        dialect = rng.choice(DIALECTS)
        mp = make_patch(rng, a, b, c, dialect, top)
        if mp is None:
            continue
        items.append((a, b, c, dialect) + mp)
        hist["dialect=" + dialect] += 1
        hist["context=%d" % c] += 1
        hist["A " + ("absent" if a is None else "empty" if a == b"" else "no-final-newline" if not a.endswith(b"\n") else "text")] += 1
        hist["B " + ("absent" if b is None else "empty" if b == b"" else "no-final-newline" if not b.endswith(b"\n") else "text")] += 1
    shutil.rmtree(top, ignore_errors=True)
    # (1) hypotheses of the theorem on the tools' output, forward and reverse
    lines1 = []
    for (a, b, c, dialect, patch, strip, name) in items:
        lines1.append("c01 0 %d %s %s %s" % (strip, hx(a), hx(b), patch.hex()))
        lines1.append("c01 1 %d %s %s %s" % (strip, hx(b), hx(a), patch.hex()))
    chk = ctx.model(lines1)
    # (2) libpatch vs model on bytes
    lines2 = []
    for (a, b, c, dialect, patch, strip, name) in items:
        lines2.append("applyb %d 0 0 %s %s" % (strip, hx(a), patch.hex()))
        lines2.append("applyb %d 1 0 %s %s" % (strip, hx(b), patch.hex()))
    impl = ctx.impl(lines2)
    model = ctx.model(lines2)
    bad = 0
    cases, want = [], []
    for k, (a, b, c, dialect, patch, strip, name) in enumerate(items):
        probs = []
        known = is_ctxfree_top(a, b, patch)
        for dirn, (src, dst) in enumerate(((a, b), (b, a))):
            tag = "forward" if dirn == 0 else "reverse"
            kn = known
            ck = chk[2 * k + dirn]
            io, mo = impl[2 * k + dirn], model[2 * k + dirn]
            if io != mo:
                ctx.violation({"kind": "correspondence-mismatch", "correspondence": "libpatch parse+apply on bytes vs model", "direction": tag,
                               "A": hx(src), "patch": patch.decode("latin-1"), "impl": io[:300], "model": mo[:300]}, no_input=True)
            good_ck = ck.endswith("EXACT 1 SPEC 1")
            want_out = "d%d %s" % (1 if dst is None else 0, "-" if dst in (None, b"") else dst.hex())
            good_apply = io.startswith("OK " + want_out + " ok1") and all(
                h.split()[0] == "A" and h.split()[3] == "0" and h.split()[5] == "0" for h in io.split("(", 1)[1].rstrip(")").split(";")) if io.startswith("OK ") else False
            if kn and not good_apply:
                ctx.known_finding("ctxfree-top: a zero-context hunk at the very top of a non-empty file (-0,0 insertion / +0,0 deletion of the head) is taken for "
                                  "the creation / deletion of the whole file and refused (diff -U0)")
                hist["known ctxfree-top"] += 1
                continue
            if not good_ck:
                probs.append("%s: the tool's output does not meet the hypotheses of the theorem: %s" % (tag, ck))
            if not good_apply:
                probs.append("%s: applying gives %s, wanted %s with every hunk at offset 0, fuzz 0" % (tag, io[:160], want_out[:80]))
        if probs:
            bad += 1
            if bad <= 2:
                ctx.violation({"kind": "diff-does-not-apply-exactly", "problems": probs, "A": hx(a), "B": hx(b), "context": c, "dialect": dialect,
                               "strip": strip, "patch": patch.decode("latin-1")})
    ctx.coverage["evaluations"] = ctx.coverage.get("evaluations", 0) + 2 * len(items)
    ctx.coverage["traces_validated_against_impl"] = ctx.coverage.get("traces_validated_against_impl", 0) + 2 * len(items)
    # (3) the binary (and the L3 model) on a subset
    sub = items if thorough else items[::3]
    for (a, b, c, dialect, patch, strip, name) in sub:
        if is_ctxfree_top(a, b, patch):
            continue
        for rev, (src, dst) in ((False, (a, b)), (True, (b, a))):
            files = {b"other": (b"o\n", 0o644)}
            if src is not None:
                files[name] = (src, 0o644)
            series = b"p.patch -p%d%s\n" % (strip, b" -R" if rev else b"")
            w = {"files": files, "dirs": [], "applied": None, "series": series, "patches": {b"p.patch": patch}}
            cfg = l3gen.default_cfg()
            cfg["threads"] = rng.choice([1, 1, 2])
            if rng.random() < 0.35:
                cfg["extra"] = ["--mmap"]          # how the file is held in memory must not matter
                hist["push with --mmap"] += 1
            r, out, _ = l3gen.run_real(ctx.binary, w, cfg)
            got = dict((p.split()[1], p) for p in r.split(" | ")[1:] if p.startswith("F "))
            key = "/".join(x.hex() for x in name.split(b"/"))
            have = got.get(key)
            have_data = None if have is None else (bytes.fromhex(have.split()[3]) if have.split()[3] != "-" else b"")
            okk = l3common.exit_of(r) == "0" and not l3common.rejects(r) and (have_data == dst or (dst is None and have is None))
            if dialect != "quoted" and not any(ch >= 0x80 for ch in name):
                cases.append((w, cfg))
                want.append(r)
            hist["push " + ("reverse" if rev else "forward")] += 1
            if not okk:
                bad += 1
                if bad <= 3:
                    ctx.violation({"kind": "push-does-not-yield-B", "reverse": rev, "workspace": l3common.ws_json(w), "cfg": l3common.cfg_json(cfg),
                                   "wanted": hx(dst), "got": hx(have_data), "exit": l3common.exit_of(r), "output": out[-300:].decode("latin-1")})
    gen_vs_diff(ctx, rng, 1200 if thorough else 250, hist)
    l3common.compare(ctx, cases, "one-patch pushes vs L3 model", real_results=want)
    l3common.finish(ctx, "pairs (A,B): 1-14 lines over an 8-line alphabet with repeats, 15%% arbitrary bytes, CR line ends, empty/absent files, "
                         "missing final newline; B = A with 1-4 insert/delete/replace edits; patches by GNU diff -a -U0..4 and git diff --no-index in 7 "
                         "header dialects; each checked forward and reverse.")


def replay(ctx, payload):
    return run(ctx)
