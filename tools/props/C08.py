"""C08 - quilt metadata is exact: backups allow popping, applied-patches matches the tree.
Theorems: coq/Properties/C08.v.  Tie: L3 model vs binary (exact set, content and mode of every file under
.pc).  Statement checks on the binary alone, against snapshots S_0..S_k taken by pushing one patch at a
time with --backup never in a second directory:
  * never -> no backup files; onfail -> backups only if the push stopped early;
  * every .pc/<patch i>/<file> equals S_{i-1}[file] (content and mode), zero-length if absent there;
  * every file that differs between S_{i-1} and S_i has a backup under .pc/<patch i>/ when i is in the window;
  * popping (restoring the backups in reverse order, zero-length = remove) from the final tree gives
    S_{window start} (S_0, the tree before this push, when the window covers the whole push);
  * .pc/applied-patches = previous content + applied names in series order."""
import collections

from props import common, l3common, l3gen, ws

ID = "C08"
NEEDS_BINARY = True
TRUSTED_BASE = l3common.TRUSTED_L3

PC = b".pc".hex()


def listing(snap):
    """-> {path(hex/..): (mode, data)} of regular files"""
    res = {}
    for p in snap.split(" | ")[1:]:
        f = p.split()
        if f[0] == "F":
            res[f[1]] = (int(f[2]), bytes.fromhex(f[3]) if f[3] != "-" else b"")
    return res


def tracked_map(snap):
    return {k: v for k, v in listing(snap).items()
            if k.split("/")[0] != PC and not k.split("/")[-1].endswith(b".rej".hex()) and k != b"series".hex()}


def hexpath(b):
    return "/".join(c.hex() for c in b.split(b"/"))


def statement_problems(ctx, w, cfg, j, snaps, before, after):
    """snaps[i] = tracked tree after i patches (i = 0..n; stays put after the first failure);
    before/after = full results around the push under test (which starts with j patches applied)"""
    probs = []
    names = l3common.series_names(w)
    n = len(names)
    applied_before = l3common.applied_patches(before)
    applied_after = l3common.applied_patches(after)
    k = len(applied_after)
    rc = l3common.exit_of(after)
    if applied_after[:len(applied_before)] != applied_before or applied_after != names[:k]:
        probs.append("applied-patches %r (before %r, series %r)" % (applied_after, applied_before, names))
    if (rc == "0") != (k == n):
        probs.append("exit %s with %d of %d applied" % (rc, k, n))
    # which backups must exist
    bk = {p: v for p, v in listing(after).items() if p.split("/")[0] == PC and len(p.split("/")) >= 3}
    bk_before = {p for p in listing(before) if p.split("/")[0] == PC and len(p.split("/")) >= 3}
    mode = cfg["backup"]
    produced = mode == "A" or (mode == "O" and rc != "0")
    if not produced:
        new = [p for p in bk if p not in bk_before]
        if new:
            probs.append("backups written although mode=%s exit=%s: %s" % (mode, rc, new[:3]))
        return probs
    cnt = cfg["count"]
    lo = j if cnt < 0 else max(j, k - cnt)
    lo = min(lo, k)
    # group by patch
    per_patch = collections.defaultdict(dict)
    for p, v in bk.items():
        comps = p.split("/")
        # patch names may contain '/', find the longest name that matches
        for nm in names:
            hp = hexpath(nm).split("/")
            if comps[1:1 + len(hp)] == hp and len(comps) > 1 + len(hp):
                per_patch[nm]["/".join(comps[1 + len(hp):])] = v
                break
        else:
            probs.append("backup file outside any patch directory: %s" % p)
    for i in range(j, k):
        nm = names[i]
        got = per_patch.get(nm, {})
        pre, post = tracked_map(snaps[i]), tracked_map(snaps[i + 1])
        if i < lo:
            if got and not any(p.startswith(PC + "/" + hexpath(nm)) for p in bk_before):
                probs.append("patch %r is below the backup window (count %d) but has backups" % (nm, cnt))
            continue
        for path, (m, data) in got.items():
            if path in pre:
                if (m, data) != pre[path]:
                    probs.append("backup of %s in %r is not the file before that patch (mode %o/%o, %d/%d bytes)" % (
                        bytes.fromhex(path.replace("/", "2f")), nm, m, pre[path][0], len(data), len(pre[path][1])))
            elif data != b"":
                probs.append("backup of %s in %r is not empty although the file did not exist before that patch" % (path, nm))
        for path in set(pre) | set(post):
            if pre.get(path) != post.get(path) and path not in got:
                probs.append("patch %r changed %s but has no backup of it" % (nm, bytes.fromhex(path.replace("/", "2f"))))
    # pop
    cur = dict(tracked_map(after))
    for i in range(k - 1, lo - 1, -1):
        for path, (m, data) in per_patch.get(names[i], {}).items():
            if data == b"":
                cur.pop(path, None)
            else:
                cur[path] = (m, data)
    want = tracked_map(snaps[lo])
    ne = lambda d: {p: v for p, v in d.items() if v[1] != b""}
    if ne(cur) != ne(want):
        a, b = ne(cur), ne(want)
        probs.append("popping the backups does not give the tree before patch %d: differs at %s" % (
            lo, [bytes.fromhex(p.replace("/", "2f")) for p in set(a) | set(b) if a.get(p) != b.get(p)][:4]))
    return probs


def one(ctx, w, cfg, j):
    names = l3common.series_names(w)
    n = len(names)
    never = dict(cfg)
    never["backup"] = "N"
    never["threads"] = 1
    snaps = [None] * (n + 1)
    d = l3gen.materialize(w, prefix="c08s")
    snaps[0] = "EXIT 0 | " + l3gen.canon_snapshot(ws.snapshot(d, skip=("patches",)))
    for i in range(n):
        c = dict(never)
        c["goal"] = ("C", 1)
        ws.run_push(ctx.binary, d, l3gen.cfg_args(c), timeout=30)
        snaps[i + 1] = "EXIT 0 | " + l3gen.canon_snapshot(ws.snapshot(d, skip=("patches",)))
    ws.cleanup(d)
    # the push under test, from j applied patches
    d = l3gen.materialize(w, prefix="c08")
    if j > 0:
        c = dict(never)
        c["goal"] = ("C", j)
        ws.run_push(ctx.binary, d, l3gen.cfg_args(c), timeout=30)
    before = "EXIT 0 | " + l3gen.canon_snapshot(ws.snapshot(d, skip=("patches",)))
    c = dict(cfg)
    c["goal"] = ("A",)
    rc, out = ws.run_push(ctx.binary, d, l3gen.cfg_args(c), timeout=30)
    after = "EXIT %s | %s" % (rc, l3gen.canon_snapshot(ws.snapshot(d, skip=("patches",))))
    ws.cleanup(d)
    jj = len(l3common.applied_patches(before))
    return statement_problems(ctx, w, cfg, jj, snaps, before, after), after


def corpus():
    """fixed cases that run first (seeded C08-c: `onfail` decided by "this worker has rejects" instead of "the push stopped
    early"): a push that stops early under --backup onfail writes the backups of EVERY applied patch - also for files
    handled by a worker that has no reject, also when the failing patch leaves no reject at all (a rename onto an
    existing file)"""
    F = lambda d, m=0o644: (d, m)
    out = []
    base = l3gen.default_cfg()
    base["backup"] = "O"
    base["count"] = -1
    w1 = {"files": {b"f": F(b"a\nb\n"), b"g": F(b"x\n"), b"h": F(b"k\n", 0o600)}, "dirs": [], "applied": None,
          "series": b"p1.patch\np2.patch\np3.patch\n",
          "patches": {b"p1.patch": b"--- a/f\n+++ b/f\n@@ -1,2 +1,2 @@\n-a\n+A\n b\n--- a/h\n+++ b/h\n@@ -1 +1 @@\n-k\n+K\n",
                      b"p2.patch": b"--- a/f\n+++ b/f\n@@ -1,2 +1,2 @@\n A\n-b\n+B\n",
                      b"p3.patch": b"--- a/g\n+++ b/g\n@@ -1 +1 @@\n-does not match\n+y\n"}}
    w2 = {"files": {b"f": F(b"a\n"), b"g": F(b"x\n"), b"taken": F(b"there\n")}, "dirs": [], "applied": None,
          "series": b"p1.patch\np2.patch\n",
          "patches": {b"p1.patch": b"--- a/f\n+++ b/f\n@@ -1 +1 @@\n-a\n+A\n",
                      b"p2.patch": b"diff --git a/g b/taken\nsimilarity index 100%\nrename from g\nrename to taken\n"}}
    for w in (w1, w2):
        for th in (1, 2, 4):
            c = dict(base)
            c["threads"] = th
            out.append((w, c, 0))
    w3 = {"files": {b"deep/er/f": F(b"a\nb\n", 0o666), b"ro": F(b"x\n", 0o444)}, "dirs": [], "applied": None, "series": b"p1.patch\n",
          "patches": {b"p1.patch": b"--- a/deep/er/f\n+++ b/deep/er/f\n@@ -1,2 +1,2 @@\n-a\n+A\n b\n--- a/ro\n+++ b/ro\n@@ -1 +1 @@\n-x\n+X\n"}}
    c = dict(base)
    c["backup"] = "A"
    out.append((w3, c, 0))
    return out


def run(ctx):
    rng = ctx.rng
    thorough = ctx.tier == "thorough"
    n = 600 if thorough else 110
    cases = []
    hist = ctx.coverage.setdefault("input_histogram", collections.Counter())
    bad = 0
    for item in corpus() + [None] * n:
        if item is not None:
            w, cfg, j = item
            names = l3common.series_names(w)
        else:
            w = l3gen.gen_workspace(rng, npatches=rng.randint(1, 6), fail_prob=0.4)
            names = l3common.series_names(w)
            if not names:
                continue
            # modes with bits the umask would remove from a file created with open(.., mode): a backup holds the mode the
            # file HAD (seeded C08-i: the backup file was created with the mode in the open call)
            for k in list(w["files"]):
                if rng.random() < 0.3:
                    w["files"][k] = (w["files"][k][0], rng.choice([0o666, 0o664, 0o775, 0o777, 0o640, 0o444]))
            cfg = l3common.rand_cfg(rng, threads=(1, 1, 2, 4))
            cfg["backup"] = rng.choice("AAON")
            cfg["count"] = rng.choice([-1, 0, 1, 2, 3, 100])
            j = rng.choice([0, 0, rng.randint(0, len(names) - 1)])
        hist["prior_applied=%d" % min(j, 3)] += 1
        hist["backup=%s" % cfg["backup"]] += 1
        hist["count=%d" % cfg["count"]] += 1
        probs, after = one(ctx, w, cfg, j)
        if j == 0:
            cases.append(((w, cfg), after))
        if probs:
            bad += 1
            if bad <= 2:
                ctx.violation({"kind": "metadata-not-exact", "problems": probs[:6], "workspace": l3common.ws_json(w),
                               "cfg": l3common.cfg_json(cfg), "prior": j, "args": l3gen.cfg_args(cfg)})
    ctx.coverage["statement_checks"] = n
    l3common.compare(ctx, [c for c, _ in cases], "whole .pc tree vs model", real_results=[a for _, a in cases])
    l3common.finish(ctx, "random workspaces of 1-6 patches (40% with a corrupted hunk; several patches touching one file, "
                         "duplicate entries, creates/deletes/renames/mode changes), backup always/onfail/never, counts "
                         "all/0/1/2/3/100, 0..n-1 patches applied beforehand, threads 1/2/4.")


def replay(ctx, payload):
    if "workspace" not in payload:
        return run(ctx)
    w = l3common.ws_from_json(payload["workspace"])
    cfg = l3common.cfg_from_json(payload["cfg"])
    probs, after = one(ctx, w, cfg, payload.get("prior", 0))
    if probs:
        ctx.violation({"kind": "metadata-not-exact", "problems": probs[:6], "workspace": payload["workspace"],
                       "cfg": payload["cfg"], "prior": payload.get("prior", 0)})
    if payload.get("prior", 0) == 0:
        l3common.compare(ctx, [(w, cfg)], "replay", real_results=[after])
    l3common.finish(ctx, "replay")
