#!/usr/bin/env python3
"""check.py <Cxx> [--tier quick|thorough] [--replay file]

Decides one property on /repo's current working tree (DESIGN.md sections 1, 3, 11):
  1. regenerate Params.v from /repo, full .vo build of the Coq development;
  2. proof obligations: compile coq/Properties/<id>.v, every Theorem must be closed;
  3. build extracted model driver, Rust harness and rapidquilt from the working tree;
  4. correspondence + verified-oracle runs (corpus, exhaustive small cases, seeded random);
  5. verdict, replay file, evidence/<id>.json.
Exit 0 = held on everything explored (KNOWN-FINDING lines allowed); exit 1 + VIOLATION line otherwise.
"""
import argparse
import importlib
import json
import os
import random
import sys
import time
import traceback

sys.path.insert(0, os.path.dirname(os.path.abspath(__file__)))
import rqlib
from rqlib import log


class Ctx:
    """What a property module gets to work with."""

    def __init__(self, prop, tier, seed):
        self.prop = prop
        self.tier = tier
        self.seed = seed
        self.rng = random.Random(seed * 1000003 + sum(ord(c) for c in prop))
        self.violations = []          # (replay payload, suffix)
        self.known = []               # KNOWN-FINDING messages
        self.coverage = {}
        self.harness = None
        self.driver = os.path.join(rqlib.OCAML, "driver")
        self.binary = None
        self.proof = None
        self.proof_broken = False
        self.build_problems = []

    def impl(self, lines):
        return rqlib.run_lines(self.harness, lines)

    def model(self, lines):
        return rqlib.run_lines(self.driver, lines)

    def violation(self, payload, no_input=False):
        self.violations.append((payload, no_input))

    def known_finding(self, msg):
        """msg = '<finding id>: <what fails>'; the id must be listed (open) in known_findings.json for
        this property - the file is never extended at run time, an unlisted class is a violation"""
        fid = msg.split(":")[0].strip()
        if fid not in [f.get("id") for f in rqlib.known_findings(self.prop)]:
            self.violation({"kind": "unlisted-finding", "finding": msg}, no_input=False)
            return
        if msg not in self.known:
            self.known.append(msg)


def main():
    ap = argparse.ArgumentParser()
    ap.add_argument("prop")
    ap.add_argument("--tier", default=os.environ.get("VERIF_TIER", "quick"))
    ap.add_argument("--replay")
    args = ap.parse_args()
    seed = int(os.environ.get("VERIF_SEED", "1") or "1")
    t0 = time.time()
    prop = args.prop
    mod = importlib.import_module("props." + prop)
    ctx = Ctx(prop, args.tier, seed)

    with rqlib.Lock():
        ok_coq, coq_log, params = rqlib.build_coq()
        if not ok_coq:
            log("coq build incomplete:\n" + coq_log[-3000:])
        ok_model, model_log = rqlib.build_model()
        if not ok_model:
            log("model extraction/driver build failed:\n" + model_log[-3000:])
            ctx.build_problems.append("model driver could not be built: " + model_log[-400:])
        ok_h, h_log, exe = rqlib.build_harness()
        if not ok_h:
            log("harness build failed:\n" + h_log[-3000:])
            ctx.build_problems.append("harness (implementation side) does not build: " + h_log[-400:])
        ctx.harness = exe
        if getattr(mod, "NEEDS_BINARY", False):
            ok_b, b_log, bexe = rqlib.build_binary()
            if not ok_b:
                log("rapidquilt build failed:\n" + b_log[-3000:])
                ctx.build_problems.append("rapidquilt does not build: " + b_log[-400:])
            ctx.binary = bexe
            if getattr(mod, "NEEDS_HOOKED_BINARY", False):
                ok_b, b_log, hexe = rqlib.build_binary(hooked=True)
                if not ok_b:
                    log("rapidquilt (hooked) build failed:\n" + b_log[-3000:])
                    ctx.build_problems.append("rapidquilt with --cfg opensuse_rapidquilt_verif does not build: " + b_log[-400:])
                ctx.hooked_binary = hexe
        forbidden = rqlib.scan_forbidden()
        proof = rqlib.check_obligations(prop)
        if args.tier == "thorough" and not proof["failed"]:
            ok_chk, chk = rqlib.coqchk(prop)
            proof["coqchk"] = chk
            if not ok_chk:
                proof["failed"] = proof["obligations"]
                proof["discharged"] = []
                proof["error"] = "coqchk: " + chk["tail"]
    ctx.proof = proof
    ctx.params = params
    if forbidden:
        proof["failed"] = proof["obligations"]
        proof["discharged"] = []
        proof["forbidden"] = forbidden
    ctx.proof_broken = bool(proof["failed"]) or not ok_coq

    if ctx.build_problems:
        # cannot run the implementation: nothing is shown to hold
        path = rqlib.write_replay(prop, seed, {"kind": "build-failure", "problems": ctx.build_problems})
        ev_cov = {"obligations": len(proof["obligations"]), "discharged": len(proof["discharged"]),
                  "checker_cmd": proof["checker_cmd"], "trusted_base": mod.TRUSTED_BASE,
                  "evaluations": 0, "distinct_nontrivial": 0, "rule": "build failed", "samples": []}
        rqlib.write_evidence(prop, args.tier, seed, "proof", ev_cov, time.time() - t0, 1, mod.TRUSTED_BASE)
        print("VIOLATION property=%s replay=%s no-failing-input-found" % (prop, path))
        sys.exit(1)

    try:
        if args.replay:
            mod.replay(ctx, json.load(open(args.replay)))
        else:
            mod.run(ctx)
    except Exception:
        traceback.print_exc()
        ctx.violation({"kind": "check-crashed", "trace": traceback.format_exc()[-2000:]}, no_input=True)

    # a broken proof obligation: the search above was the search for a failing input
    if ctx.proof_broken and not any(not ni for _, ni in ctx.violations):
        ctx.violation({"kind": "proof-obligation-broken", "file": proof["file"],
                       "theorems_not_checked": proof["failed"] or ["(theories did not build)"],
                       "forbidden": forbidden, "coq_log": (proof.get("error") or coq_log)[-1500:],
                       "params": params}, no_input=True)

    cov = dict(ctx.coverage)
    if "_distinct" in cov:          # the module did not reach its finish() (it crashed)
        cov["distinct_nontrivial"] = len(cov.pop("_distinct"))
    cov.update({"obligations": len(proof["obligations"]), "discharged": len(proof["discharged"]),
                "checker_cmd": proof["checker_cmd"], "trusted_base": mod.TRUSTED_BASE,
                "theorems": proof["obligations"], "print_assumptions": proof["assumptions"],
                "anchors_not_found": params.get("anchors_not_found", []),
                "known_findings_reconfirmed": ctx.known})
    if proof.get("coqchk"):
        cov["coqchk"] = {"cmd": proof["coqchk"]["cmd"], "axioms": proof["coqchk"]["axioms"]}
    cov.setdefault("evaluations", 0)
    cov.setdefault("distinct_nontrivial", 0)
    cov.setdefault("samples", [])
    rqlib.write_evidence(prop, args.tier, seed, "proof", cov, time.time() - t0, len(ctx.violations),
                         mod.TRUSTED_BASE)
    for k in ctx.known:
        print("KNOWN-FINDING: property=%s %s" % (prop, k))
    if ctx.violations:
        # prefer a violation with a concrete failing input
        ctx.violations.sort(key=lambda v: v[1])
        payload, no_input = ctx.violations[0]
        path = rqlib.write_replay(prop, seed, payload)
        print("VIOLATION property=%s replay=%s%s" % (prop, path, " no-failing-input-found" if no_input else ""))
        sys.exit(1)
    print("OK property=%s tier=%s obligations=%d/%d evaluations=%d wall=%.0fs" % (
        prop, args.tier, len(proof["discharged"]), len(proof["obligations"]), cov["evaluations"], time.time() - t0))
    sys.exit(0)


if __name__ == "__main__":
    main()
