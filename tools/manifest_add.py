#!/usr/bin/env python3
"""manifest_add.py <Cxx> <technique> <level text> [<level note>] - claim a property in MANIFEST.json"""
import json, sys
pid, tech, text = sys.argv[1:4]
note = sys.argv[4] if len(sys.argv) > 4 else ""
p = '/verif/MANIFEST.json'
m = json.load(open(p))
m['checks'] = [c for c in m['checks'] if c['property_id'] != pid]
m['checks'].append({
    "property_id": pid,
    "quick_cmd": "python3 tools/check.py %s --tier quick" % pid,
    "thorough_cmd": "python3 tools/check.py %s --tier thorough" % pid,
    "evidence_file": "/verif/evidence/%s.json" % pid,
    "replay_cmd_template": "python3 tools/check.py %s --replay {path}" % pid,
    "engine": "rocq-model-correspondence",
    "level_claimed": {"category": "proof", "text": text, "design_ref": "DESIGN.md section 5, %s" % pid},
    "level_note": note,
    "technique": tech})
m['checks'].sort(key=lambda c: c['property_id'])
m['not_applicable'] = [n for n in m['not_applicable'] if n['property_id'] != pid]
json.dump(m, open(p, 'w'), indent=1)
