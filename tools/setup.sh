#!/bin/bash
# Build the framework from files on disk only (offline): Coq development (full .vo), extracted
# model + OCaml driver, Rust harness and rapidquilt from /repo's current working tree.
set -u
cd "$(dirname "$0")/.."
export CARGO_NET_OFFLINE=true RUST_BACKTRACE=0
python3 - <<'PY'
import sys
sys.path.insert(0, "tools")
import rqlib
with rqlib.Lock():
    ok, log, info = rqlib.build_coq()
    print("coq:", ok, info.get("anchors_not_found"))
    if not ok:
        print(log[-3000:])
    ok2, log2 = rqlib.build_model()
    print("model driver:", ok2)
    if not ok2:
        print(log2[-3000:])
    ok3, log3, exe = rqlib.build_harness()
    print("harness:", ok3)
    if not ok3:
        print(log3[-3000:])
    ok4, log4, exe4 = rqlib.build_binary()
    print("rapidquilt:", ok4)
    if not ok4:
        print(log4[-3000:])
    sys.exit(0 if (ok and ok2 and ok3 and ok4) else 1)
PY
